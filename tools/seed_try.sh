#!/bin/bash
# usage: seed_try.sh <seed-name> <check id> [more check ids]   - applies seeded/<name>/patch.diff in a scratch worktree and runs the checks (quick)
name=$1; shift
wt=$(mktemp -d /tmp/wt_try_XXXX); rmdir $wt
git -C /repo worktree add -q --detach $wt HEAD || exit 2
git -C $wt apply /verif/seeded/$name/patch.diff || { git -C /repo worktree remove --force $wt; exit 2; }
for c in "$@"; do
  VERIF_REPO=$wt VERIF_EVIDENCE_DIR=$wt/.ev VERIF_OUT_DIR=$wt/.out /verif/run_check.py $c --tier ${TIER:-quick} 2>&1 | grep -E "signature|tier=|INFRA|Traceback|Error" | cut -c1-${COLS:-220} | head -${LINES_MAX:-8}
done
git -C /repo worktree remove --force $wt
