#!/venv/bin/python
"""Evaluate a behaviour-preserving ("neutral") change produced by a sub-agent: the checks must stay silent.
usage: neutral_eval.py <name> <dir holding patch.diff + meta.json [+ demo.py]> [check ids ...]
In a FRESH scratch worktree of /repo HEAD: the patch applies, the pinned suite passes, the demo (if any) exits 0 with the change;
then the given checks (default: the property's own check) run against the patched tree and must exit 0.
Everything is stored under /verif/neutral/<name>/ ; the scratch worktree is removed."""
import json, os, shutil, subprocess, sys, tempfile

name, src = sys.argv[1], sys.argv[2]
meta = json.load(open(os.path.join(src, "meta.json")))
prop = meta["property"]
checks = sys.argv[3:] or [prop]
out = os.path.join("/verif/neutral", name)
os.makedirs(out, exist_ok=True)
shutil.copy(os.path.join(src, "patch.diff"), os.path.join(out, "patch.diff"))
if os.path.exists(os.path.join(src, "demo.py")):
    shutil.copy(os.path.join(src, "demo.py"), os.path.join(out, "demo.py"))
wt = tempfile.mkdtemp(prefix="wt_neutral_"); os.rmdir(wt)
subprocess.run(["git", "-C", "/repo", "worktree", "add", "-q", "--detach", wt, "HEAD"], check=True)
res = {k: meta.get(k) for k in ("property", "kind", "summary", "why_property_holds", "observable_difference", "files")}
try:
    ap = subprocess.run(["git", "-C", wt, "apply", os.path.join(out, "patch.diff")], capture_output=True, text=True)
    res["applies"] = ap.returncode == 0
    if os.path.exists(os.path.join(out, "demo.py")):
        for sub in ("", "A", "B", "C"):
            os.makedirs(os.path.join(wt, "_seed", sub), exist_ok=True)
            shutil.copy(os.path.join(out, "demo.py"), os.path.join(wt, "_seed", sub, "demo.py"))
        p = subprocess.run(["/venv/bin/python", "_seed/demo.py"], cwd=wt, env=dict(os.environ, PYTHONPATH=wt), capture_output=True, text=True, timeout=600)
        res["demo_with_change"] = p.returncode
        res["demo_output"] = (p.stdout + p.stderr)[-300:]
    FLAKY = ("test_mitre_attack_cached_data_used_without_url", "test_mitre_d3fend_cached_data_used_without_url")
    for attempt in range(3):
        b = subprocess.run(["/venv/bin/python", "/verif/tools/baseline.py", wt], capture_output=True, text=True, env=dict(os.environ, BASELINE_SHOW="5"))
        miss = [l for l in b.stdout.splitlines() if "NOT PASSING" in l]
        if b.returncode == 0 or not all(any(f in l for f in FLAKY) for l in miss):
            break
    res["suite_passes"] = b.returncode == 0
    res["suite"] = b.stdout.strip().splitlines()[-3:]
    res["checks"] = {}
    for c in checks:
        env = dict(os.environ, VERIF_REPO=wt, VERIF_EVIDENCE_DIR=os.path.join(wt, ".ev"), VERIF_OUT_DIR=os.path.join(wt, ".out"))
        p = subprocess.run(["/verif/run_check.py", c, "--tier", os.environ.get("TIER", "quick")], cwd="/verif", env=env, capture_output=True, text=True, timeout=7200)
        lines = p.stdout.splitlines()
        sigs = []
        for i, l in enumerate(lines):
            if l.strip().startswith("signature:"):
                sigs.append("\n".join(x.strip()[:400] for x in lines[i : i + 4]))
        res["checks"][c] = {"exit": p.returncode, "signatures": sigs[:6], "summary": lines[-1][:200] if lines else "", "stderr": p.stderr[-300:] if p.returncode not in (0, 1) else ""}
    res["alarms"] = [c for c, r in res["checks"].items() if r["exit"] != 0]
finally:
    subprocess.run(["git", "-C", "/repo", "worktree", "remove", "--force", wt])
json.dump(res, open(os.path.join(out, "meta.json"), "w"), indent=1)
print(json.dumps({k: res.get(k) for k in ("property", "applies", "suite_passes", "demo_with_change", "alarms")}))
for c in res.get("alarms", []):
    print(c, res["checks"][c]["exit"], "\n".join(res["checks"][c]["signatures"][:3]))
