import json, sys
import jsonschema
schema = json.load(open("/root/.vp/EVIDENCE.schema.json")) if __import__("os").path.exists("/root/.vp/EVIDENCE.schema.json") else json.load(open(__import__("os").path.join(__import__("os").path.dirname(__file__), "EVIDENCE.schema.json")))
rc = 0
for p in sys.argv[1:]:
    try:
        jsonschema.validate(json.load(open(p)), schema)
    except Exception as e:
        print(p, "INVALID:", str(e)[:500]); rc = 1
sys.exit(rc)
