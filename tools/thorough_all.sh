#!/bin/bash
# every check's thorough tier on the unchanged tree (evidence and replays go to /verif/out/ev_thorough, not to the committed evidence)
here=$(cd "$(dirname "$0")/.." && pwd)
cd $here
for c in ${@:-C07 C06 C08 C03 C14 C18 C20 C09 C19 C12 C16 C04 C10 C05 C02 C11 C15 C17 C01 C13}; do
  s=$(date +%s)
  VERIF_SEED=${VERIF_SEED:-1} VERIF_EVIDENCE_DIR=/verif/out/ev_thorough VERIF_OUT_DIR=/verif/out/ev_thorough ./run_check.py $c --tier thorough 2>&1 | grep -E "tier=|VIOLATION|signature|INFRA|Error" | cut -c1-220
  echo "$c took $(( $(date +%s) - s )) s"
done
