#!/venv/bin/python
"""Silence test: behaviour-preserving changes kept under /verif/neutral/<name>/patch.diff must not make any check alarm.
usage: neutral_regress.py [check ids ...]   (default: all claimed checks; env TIER=quick|thorough)
Greedily applies as many kept patches as apply together to a scratch worktree of /repo HEAD (repeats with the rest until every
patch that still applies to HEAD was part of one tree), runs the checks with VERIF_REPO pointing at that tree and expects exit 0
from every one. Patches that no longer apply to HEAD (the repository was repaired since) are listed and skipped."""
import glob, json, os, subprocess, sys, tempfile

VERIF = os.path.dirname(os.path.dirname(os.path.abspath(__file__)))  # the tree this tool lives in (a snapshot when started through vp run)

checks = sys.argv[1:] or [c["property_id"] for c in json.load(open(VERIF + "/MANIFEST.json"))["checks"]]
tier = os.environ.get("TIER", "quick")
todo = sorted(glob.glob(VERIF + "/neutral/*/patch.diff"))
bad = 0
round_no = 0
stale = []
while todo:
    round_no += 1
    wt = tempfile.mkdtemp(prefix="wt_neutralreg_"); os.rmdir(wt)
    subprocess.run(["git", "-C", "/repo", "worktree", "add", "-q", "--detach", wt, "HEAD"], check=True)
    try:
        applied, rest = [], []
        for p in todo:
            if subprocess.run(["git", "-C", wt, "apply", "--check", p], capture_output=True).returncode == 0:
                subprocess.run(["git", "-C", wt, "apply", p], check=True)
                applied.append(p)
            else:
                rest.append(p)
        if not applied:
            stale = rest
            break
        print(f"tree {round_no}: {len(applied)} patches applied together: " + " ".join(os.path.basename(os.path.dirname(p)) for p in applied))
        env = dict(os.environ, VERIF_REPO=wt, VERIF_EVIDENCE_DIR=os.path.join(wt, ".ev"), VERIF_OUT_DIR=os.path.join(wt, ".out"))
        for c in checks:
            r = subprocess.run([VERIF + "/run_check.py", c, "--tier", tier], cwd=VERIF, env=env, capture_output=True, text=True, timeout=14400)
            last = r.stdout.strip().splitlines()[-1][:150] if r.stdout.strip() else ""
            print(f"  {c} exit={r.returncode} {last}")
            if r.returncode != 0:
                bad += 1
                print("\n".join(l[:300] for l in r.stdout.splitlines() if "signature" in l or l.startswith("VIOLATION"))[:3000])
        todo = rest
    finally:
        subprocess.run(["git", "-C", "/repo", "worktree", "remove", "--force", wt])
if stale:
    print("no longer apply to HEAD (skipped):", " ".join(os.path.basename(os.path.dirname(p)) for p in stale))
subprocess.run(["git", "-C", "/repo", "worktree", "prune"])
sys.exit(1 if bad else 0)
