#!/venv/bin/python
"""Generate /verif/MANIFEST.json from the table below (single source of truth)."""
import json, os, glob
HERE = os.path.dirname(os.path.dirname(os.path.abspath(__file__)))
CHECKS = {
 "C10": dict(cat="exploration", tech="bounded-exhaustive enumeration of correlation rules x backend correlation options x pipelines on the real converter with delimiter-structured templates that are parsed back into fields; extended conditions compared by truth table",
             text="Three completely enumerated sub-products: types x operators x timespan units x counts x timespan modes; types x referenced-rule sets (1-4 rules, multi-condition, by id, nested correlation) x group-by x aliases x generate x {typing, single-rule template, sub-query finalisation} x pipelines (field mapping, prefix, post-processing); all extended condition trees up to the bound x precedence x parenthesize x tokens. Every parsed field (sub-queries in reference order and tagged, normalisation, timespan, group-by, referenced rules, operator/count/field/percentile, extended condition) must equal the reference record.",
             note="sub-query text reference = fresh stand-alone conversion of the referenced rule; template grammar in mc/vcorr.py", ref="§3 C10"),
 "C20": dict(cat="exploration", tech="exhaustive enumeration of 'schedules' of a fixed corpus: a covering family of PYTHONHASHSEED values (searched until every iteration order of each probe set of <= 3 corpus strings is realised) x random seeds x forced-identical random draws x repeated process starts, each in a fresh interpreter running the same driver; byte comparison of every output",
             text="A corpus of order-sensitive inputs (1:n field mappings, nested pipelines, regex flag sets, add_condition, stacked filters, correlation sets, set-joined error messages, collected error records, validator run) is converted in separate interpreters under every hash seed of the covering family, several random seeds, a draw mode in which every internal random identifier is identical, and repeated starts; every item's queries / finalised output / error records must be identical and free of _cond_/_filt_ identifiers. Achieved permutation coverage is reported.",
             note="only hash orders of string sets are owned; identity-hashed validator order is covered by C19; validator issue list compared as multiset", ref="§3 C20"),
 "C16": dict(cat="fault_enumeration", tech="exhaustive injection enumeration (every opt-in key x truthy value x level, single and pairs) and policy products (caller flags x environment values x vars-file locations x entry points) on the real pipeline loader and a full conversion, observed by a CPython audit hook plus sentinel files",
             text="For every capability-bearing item (file/http/command placeholders, template post-processing and finalizer with vars) at every nesting depth, with every injected opt-in key at every level and default caller arguments, no subprocess/file/network/exec event may occur and the item must fail with a Sigma security (or configuration) error; with opt-in by argument or environment the event must occur (positive control); vars files outside the allowed directories (outside, symlink, prefix-sharing sibling) are never executed when directories are in force.",
             note="CPython audit events are the observation; caller opt-in not reaching nested pipelines is stricter than required and not judged", ref="§3 C16"),
 "C07": dict(cat="fault_enumeration", tech="exhaustive single-deviation (thorough: pairwise) fault enumeration over every path of every base document x replacement menu, loaded strictly and with collect_errors through class loaders, from_dicts and from_yaml on the real code",
             text="For 13 base documents (rules, one correlation per type incl. aliases/extended condition, filters, collections with global/repeat/reset) every path x 28 replacements (delete, wrong-typed scalars/lists/maps, out-of-range values, non-string keys) is applied; strict loading must succeed or raise a SigmaError, collecting must never raise, errors non-empty iff strict raises, first collected error equals the strict exception.",
             note="YAML-representable data only; SigmaError.__eq__ defines error equality", ref="§3 C07"),
 "C19": dict(cat="model_checking", tech="exhaustive exploration of rule orders x validator orders (instance set replaced by an ordered list) x exclusion tables x operation histories (validate / convert / to_dict) on the real SigmaValidator; reference model for unused / dangling / uniqueness groups; before/after snapshots",
             text="(A) all condition trees up to the bound over names and selectors: dangling-detection and dangling-condition issue sets equal the reference; (B) every built-in validator alone and all together in every history of <= 3 operations leave dict form, queries (two backend configurations) and structure unchanged and report the same issues on every run; (C) every ordered collection of <= 3-4 rules over id/title/filename combinations, every order of the stateful validators and exclusion tables: issue multiset equals the reference groups.",
             note="attacktag and d3_fendtag validators need network access and are excluded; issue list order is not judged", ref="§3 C19"),
 "C13": dict(cat="model_checking", tech="explicit-state exploration over histories of preceding pipeline items x complete sweep of one condition group (lists, linking, negation, all expression trees up to the operator bound) with the other groups over reduced forms, on the real ProcessingPipeline.apply; marker-set invariant against a reference evaluation",
             text="For every history of <= 2 preceding items (state, log source, rename) and every judged item of the swept space, the set of detection-item fields, field references, fields-list entries and string values carrying the marker must equal the reference evaluation of rule / detection-item / field-name groups (linking, negation flags, expressions, empty groups always apply, applied/state conditions observing the model of items applied so far).",
             note="reference leaf semantics for 30 pool conditions written from the documentation; one probe rule", ref="§3 C13"),
 "C14": dict(cat="model_checking", tech="exhaustive exploration of composition expressions (all bracketings of +, empty/None insertions, sum, all resolver permutations by name and by file, resolved once/twice, backend stages, operands used before composing) on real ProcessingPipeline objects against a list-concatenation reference",
             text="Marker pipelines with order-sensitive transformations, bracketing post-processing, wrapping finalizers and vars are composed in every way up to n pipelines; each composition is observed through a probe conversion (query text, vars, applied, applied_ids) and must equal the reference list-concatenation model; resolver results must not depend on specifier order and follow (priority, specifier).",
             note="reference model in checks/c14_composition.py; n <= 4 (quick) / 5 (thorough)", ref="§3 C14"),
 "C15": dict(cat="model_checking", tech="explicit-state exploration by history replay over a 12-event menu (loads, conversions, re-initialisation, second backends, failing conversions) on real backends/pipelines; differential probe against a fresh-equivalent setup in every state",
             text="Every history up to depth 4 (quick) / 5 (thorough) is replayed on fresh real objects (fresh backend class with a class-level backend pipeline, fresh user pipeline with state/field-mapping/nested/conditional items, cleared module caches); after every event the backend class attributes must be unchanged, after every history three probe rules must convert exactly as in a fresh setup. Replay determinism is checked first; states/transitions counted.",
             note="histories beyond the depth bound and other event kinds are not covered; canon lists the mutable locations the menu can reach", ref="§3 C15"),
 "C09": dict(cat="model_checking", tech="exhaustive exploration of all document permutations x load paths (one YAML stream, from_dicts, merge at every cut, load_ruleset files) of each rule-set template on the real SigmaCollection/Backend; order-independence and reference-model invariants in every state",
             text="For every rule-set template (<= 6 documents quick, 7 thorough; references by name/id, chains of depth 3, shared, missing, generate on/off) every permutation and every load path is loaded, resolved and converted; outcome signature must be identical across all of them, referenced rules precede referrers, the emitted set equals the reference, plain-rule queries equal stand-alone conversion, a missing reference is a SigmaError at load time, resolving twice is idempotent.",
             note="correlation query text judged by C10; reference emitted-set model in checks/c09_references.py", ref="§3 C09"),
 "C08": dict(cat="model_checking", tech="explicit-state exploration of the real Backend.convert by history replay: all rule-kind sequences up to length 4-5 x collect_errors x pipeline x backend config; invariant vs per-rule fresh conversions",
             text="Every collection (sequence over an 11-kind menu with a failing kind per stage) up to the length bound is converted on fresh real objects; in every reached state the queries must equal the concatenation of per-rule fresh conversions, error records one per failing rule in order, class attributes restored, and a probe conversion on the used backend equal to a fresh one. States, transitions and histories are counted by the run; replay determinism is checked first.",
             note="reference = fresh per-rule conversion with the same configuration; finalizers are covered by C14", ref="§3 C08"),
 "C17": dict(cat="exploration", tech="bounded-exhaustive enumeration of placeholder values x positions x modifiers x pipelines of placeholder items on the real pipeline+backend; decoded query vs reference expansion by truth table",
             text="Every value of <= 3-4 parts over literals, wildcards, three placeholders and escaped percent signs, in string/keyword/regex position under none/contains/startswith/endswith/all, through every pipeline of <= 2-3 placeholder items (value list x variable tables, wildcard, query expression; no list / include / exclude): the query must decode to the reference expansion, or the rule must fail with a SigmaError naming the unresolved placeholder; %name% text never appears.",
             note="reference expansion semantics in checks/c17_placeholders.py; verification backend K0 only", ref="§3 C17"),
 "C01": dict(cat="exploration", tech="bounded-exhaustive enumeration of rules x backend configurations on the real converter; emitted query decoded by a target-language parser and compared with a reference formula by exhaustive truth table",
             text="Three completely enumerated sub-products: condition trees x precedence/parenthesize/token/NOT-mode configurations; detection shapes x contexts x in-list knobs x precedence; value kinds x contexts x subsets of optional templates. Every query is parsed back with the configuration's own grammar and must be truth-table equivalent (all 2^n assignments) to the reference formula of the rule dict.",
             note="reference semantics (mc/refsigma, mc/refrule) and decoder (mc/qparse) are trusted and self-tested; full product of the three sub-products not claimed", ref="§3 C01"),
 "C03": dict(cat="exploration", tech="prefix-tree enumeration of all modifier chains up to depth 3-4 x value space on the real SigmaDetectionItem.from_mapping against a three-valued reference model",
             text="All chains over the full 33-entry modifier table up to the depth bound for every value of the bounded value space; result projected to (values, linking, negated) or exception class; compared with accept/reject/unspecified reference. Pruning only below prefixes rejected by both sides.",
             note="reference modifier semantics in mc/refsigma.py; unspecified combinations only require 'value or SigmaError'", ref="§3 C03"),
 "C02": dict(cat="exploration", tech="bounded-exhaustive enumeration of condition trees x spellings x detection-name sets on the real parser, truth-table comparison with the generating tree",
             text="All condition trees up to the operator bound over plain names, over a pool of keyword-like names and over selector leaves (quantifier x pattern) for several detection-name sets, each in up to four spellings; SigmaCondition(...).parsed is evaluated under all 2^n assignments and compared with the generating tree (the printer is the reference, no second parser).",
             note="detections are opaque atoms; zero-match selectors not judged; expressions beyond the bound not explored", ref="§3 C02"),
 "C04": dict(cat="exploration", tech="bounded-exhaustive enumeration of payloads x modifier chains x surroundings on the real modifiers, Python base64/codecs as oracle",
             text="Every payload up to the length bound over a 6-symbol alphabet (1-4 byte UTF-8 characters, surrogate pair, escaped wildcard) through 11 chains; base64offset completeness and soundness over every prefix/suffix length 0..5 with all spill-bit patterns of the adjacent bytes.",
             note="byte meaning of a value = UTF-8 of its literal characters; filler bytes fixed", ref="§3 C04"),
 "C05": dict(cat="exploration", tech="bounded-exhaustive enumeration of strings x target escaping configurations on the real SigmaString/TextQueryBackend, decoded by a reference decoder; regex forms executed on every subject string",
             text="All strings up to the length bound over an alphabet with backslash, wildcards, quotes and configured metacharacters: parse vs reference parser, to_plain round trip, convert_value_str under 300+ escaping configurations decoded with the configuration's own (most lenient) rules, to_regex and the three RegexTransformation methods compared with a glob matcher on every subject, field-name quoting over all field settings.",
             note="lenient target decoding rules; Python re trusted; strings beyond the length bound not explored", ref="§3 C05"),
 "C18": dict(cat="exploration", tech="bounded-exhaustive enumeration of networks on the real code; IPv4 set equality by interval arithmetic, IPv6 host-family completeness",
             text="Every IPv4 prefix length x boundary-octet base: expansion equals the network exactly (interval arithmetic, disjointness, non-emptiness); every IPv6 prefix length x group-set base x host family: canonical host text is matched; native template fields; invalid strings rejected. Exhaustive within the stated boundary sets.",
             note="ipaddress trusted for canonical text; addresses outside the boundary sets not covered", ref="§3 C18"),
}
PENDING_REASON = "check not built yet in this round (design in DESIGN.md §3); nothing is claimed for it"
props = [json.loads(l)["id"] for l in open(os.path.join(HERE, "properties.jsonl"))]
m = {
 "version": 1,
 "setup_cmd": "cd /verif && /venv/bin/python -m compileall -q mc checks run_check.py >/dev/null && /venv/bin/python tools/selfcheck.py",
 "hooks": {"guard": "PYSIGMA_VERIF", "enable": "no source hooks exist; checks import the working tree of /repo directly (sys.path[0]=/repo) and set PYSIGMA_VERIF=1",
           "baseline_off_cmd": "cd /verif && /venv/bin/python tools/baseline.py /repo", "source_commits": [], "add_only": True},
 "engines": [{"name": "mc", "path": "/verif/mc", "serves_properties": sorted(CHECKS),
              "kind_free_text": "hand-written bounded-exhaustive explorer for Python: sharded enumerators + replay-based explicit-state search on the real pySigma objects, reference models in plain Python"}],
 "checks": [], "not_applicable": [],
 "notes": "All checks: ./run_check.py <id> --tier quick|thorough; VERIF_REPO=<dir> points a check at another working tree (used for seeded changes).",
}
for p in props:
    if p in CHECKS:
        c = CHECKS[p]
        m["checks"].append({
            "property_id": p,
            "quick_cmd": f"cd /verif && ./run_check.py {p} --tier quick",
            "thorough_cmd": f"cd /verif && ./run_check.py {p} --tier thorough",
            "evidence_file": f"/verif/evidence/{p}.json",
            "replay_cmd_template": f"cd /verif && ./run_check.py {p} --replay {{path}}",
            "engine": "mc",
            "level_claimed": {"category": c["cat"], "text": c["text"], "design_ref": c["ref"]},
            "level_note": c["note"], "technique": c["tech"]})
    else:
        m["not_applicable"].append({"property_id": p, "reason": PENDING_REASON})
json.dump(m, open(os.path.join(HERE, "MANIFEST.json"), "w"), indent=1)
print("claimed:", len(m["checks"]), "not claimed:", len(m["not_applicable"]))
