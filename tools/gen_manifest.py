#!/venv/bin/python
"""Generate /verif/MANIFEST.json from the table below (single source of truth)."""
import json, os, glob
HERE = os.path.dirname(os.path.dirname(os.path.abspath(__file__)))
CHECKS = {
 "C18": dict(cat="exploration", tech="bounded-exhaustive enumeration of networks on the real code; IPv4 set equality by interval arithmetic, IPv6 host-family completeness",
             text="Every IPv4 prefix length x boundary-octet base: expansion equals the network exactly (interval arithmetic, disjointness, non-emptiness); every IPv6 prefix length x group-set base x host family: canonical host text is matched; native template fields; invalid strings rejected. Exhaustive within the stated boundary sets.",
             note="ipaddress trusted for canonical text; addresses outside the boundary sets not covered", ref="§3 C18"),
}
PENDING_REASON = "check not built yet in this round (design in DESIGN.md §3); nothing is claimed for it"
props = [json.loads(l)["id"] for l in open(os.path.join(HERE, "properties.jsonl"))]
m = {
 "version": 1,
 "setup_cmd": "cd /verif && /venv/bin/python -m compileall -q mc checks run_check.py >/dev/null && /venv/bin/python tools/selfcheck.py",
 "hooks": {"guard": "PYSIGMA_VERIF", "enable": "no source hooks exist; checks import the working tree of /repo directly (sys.path[0]=/repo) and set PYSIGMA_VERIF=1",
           "baseline_off_cmd": "cd /verif && /venv/bin/python tools/baseline.py /repo", "source_commits": [], "add_only": True},
 "engines": [{"name": "mc", "path": "/verif/mc", "serves_properties": sorted(CHECKS),
              "kind_free_text": "hand-written bounded-exhaustive explorer for Python: sharded enumerators + replay-based explicit-state search on the real pySigma objects, reference models in plain Python"}],
 "checks": [], "not_applicable": [],
 "notes": "All checks: ./run_check.py <id> --tier quick|thorough; VERIF_REPO=<dir> points a check at another working tree (used for seeded changes).",
}
for p in props:
    if p in CHECKS:
        c = CHECKS[p]
        m["checks"].append({
            "property_id": p,
            "quick_cmd": f"cd /verif && ./run_check.py {p} --tier quick",
            "thorough_cmd": f"cd /verif && ./run_check.py {p} --tier thorough",
            "evidence_file": f"/verif/evidence/{p}.json",
            "replay_cmd_template": f"cd /verif && ./run_check.py {p} --replay {{path}}",
            "engine": "mc",
            "level_claimed": {"category": c["cat"], "text": c["text"], "design_ref": c["ref"]},
            "level_note": c["note"], "technique": c["tech"]})
    else:
        m["not_applicable"].append({"property_id": p, "reason": PENDING_REASON})
json.dump(m, open(os.path.join(HERE, "MANIFEST.json"), "w"), indent=1)
print("claimed:", len(m["checks"]), "not claimed:", len(m["not_applicable"]))
