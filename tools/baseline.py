#!/venv/bin/python
"""Run the repository's pinned suite (guard off) and compare with BASELINE.json stable_pass.
usage: baseline.py [repo_dir]   exit 0 iff every stable_pass test passed."""
import json, os, subprocess, sys, tempfile, xml.etree.ElementTree as ET
repo = sys.argv[1] if len(sys.argv) > 1 else "/repo"
base = json.load(open("/root/.vp/BASELINE.json"))
fd, junit = tempfile.mkstemp(suffix=".xml"); os.close(fd)
env = dict(os.environ); env.pop("PYSIGMA_VERIF", None)
subprocess.run(["/venv/bin/python", "-m", "pytest", "-q", "-p", "no:cacheprovider", "--timeout=900",
                "--continue-on-collection-errors", "--junitxml=" + junit],
               cwd=repo, env=env, stdout=subprocess.DEVNULL, stderr=subprocess.DEVNULL)
passed, failed = set(), set()
for tc in ET.parse(junit).getroot().iter("testcase"):
    tid = (tc.get("classname") or "") + "::" + (tc.get("name") or "")
    if tc.find("failure") is not None or tc.find("error") is not None: failed.add(tid)
    elif tc.find("skipped") is None: passed.add(tid)
os.unlink(junit)
missing = [t for t in base["stable_pass"] if t not in passed]
print(f"stable_pass={len(base['stable_pass'])} passed_now={len(passed)} missing={len(missing)}")
for t in missing[:int(os.environ.get("BASELINE_SHOW", "40"))]: print("  NOT PASSING:", t)
sys.exit(1 if missing else 0)
