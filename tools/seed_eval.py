#!/venv/bin/python
"""Evaluate a seeded change produced by a sub-agent.
usage: seed_eval.py <seed-name> <agent-worktree | dir holding patch.diff+demo.py+meta.json> [check ids ...]
Confirms in a FRESH scratch worktree of /repo HEAD: patch applies, pinned suite passes, demo fails with / passes without the
change; runs the given checks (default: the property's own check) against the patched tree; stores everything under
/verif/seeded/<seed-name>/ ; removes the scratch worktree."""
import json, os, shutil, subprocess, sys, tempfile

name, agent_wt = sys.argv[1], sys.argv[2]
src = os.path.join(agent_wt, "_seed")
direct = os.path.exists(os.path.join(agent_wt, "patch.diff"))  # second form: <dir> holds patch.diff, demo.py, meta.json itself
if direct:
    src = agent_wt
meta = json.load(open(os.path.join(src, "meta.json")))
prop = meta["property"]
checks = sys.argv[3:] or [prop]
out = os.path.join("/verif/seeded", name)
os.makedirs(out, exist_ok=True)
# regenerate the patch from the agent's worktree (authoritative), relative to /repo HEAD
patch = open(os.path.join(src, "patch.diff")).read() if direct else subprocess.run(["git", "-C", agent_wt, "diff", "HEAD", "--", "sigma"], capture_output=True, text=True).stdout
if not patch.strip():
    print("no change in", agent_wt); sys.exit(2)
open(os.path.join(out, "patch.diff"), "w").write(patch)
shutil.copy(os.path.join(src, "demo.py"), os.path.join(out, "demo.py"))
wt = tempfile.mkdtemp(prefix="wt_seed_"); os.rmdir(wt)
subprocess.run(["git", "-C", "/repo", "worktree", "add", "-q", "--detach", wt, "HEAD"], check=True)
res = {"property": prop, "summary": meta.get("summary"), "needs": meta.get("needs"), "files": meta.get("files")}
try:
    def demo():
        os.makedirs(os.path.join(wt, "_seed"), exist_ok=True)
        shutil.copy(os.path.join(out, "demo.py"), os.path.join(wt, "_seed", "demo.py"))
        for sub in ("A", "B"):  # demos written for _seed/<X>/demo.py may use relative paths
            os.makedirs(os.path.join(wt, "_seed", sub), exist_ok=True)
            shutil.copy(os.path.join(out, "demo.py"), os.path.join(wt, "_seed", sub, "demo.py"))
        p = subprocess.run(["/venv/bin/python", "_seed/demo.py"], cwd=wt, env=dict(os.environ, PYTHONPATH=wt), capture_output=True, text=True, timeout=600)
        return p.returncode, (p.stdout + p.stderr)[-400:]
    rc0, o0 = demo()
    res["demo_without_change"] = rc0
    ap = subprocess.run(["git", "-C", wt, "apply", os.path.join(out, "patch.diff")], capture_output=True, text=True)
    if ap.returncode != 0:
        res["apply_error"] = ap.stderr[-300:]
    rc1, o1 = demo()
    res["demo_with_change"] = rc1
    res["demo_output_with_change"] = o1
    FLAKY = ("test_mitre_attack_cached_data_used_without_url", "test_mitre_d3fend_cached_data_used_without_url")  # fail when suites run concurrently
    for attempt in range(3):
        b = subprocess.run(["/venv/bin/python", "/verif/tools/baseline.py", wt], capture_output=True, text=True, env=dict(os.environ, BASELINE_SHOW="5"))
        miss = [l for l in b.stdout.splitlines() if "NOT PASSING" in l]
        if b.returncode == 0 or not all(any(f in l for f in FLAKY) for l in miss):
            break
    res["suite"] = b.stdout.strip().splitlines()
    res["suite_passes"] = b.returncode == 0
    res["confirmed"] = bool(rc0 == 0 and rc1 != 0 and b.returncode == 0 and ap.returncode == 0)
    res["checks"] = {}
    for c in checks:
        env = dict(os.environ, VERIF_REPO=wt, VERIF_EVIDENCE_DIR=os.path.join(wt, ".ev"), VERIF_OUT_DIR=os.path.join(wt, ".out"))
        p = subprocess.run(["/verif/run_check.py", c, "--tier", os.environ.get("TIER", "quick")], cwd="/verif", env=env, capture_output=True, text=True, timeout=3600)
        sigs = [l.strip() for l in p.stdout.splitlines() if l.strip().startswith("signature:")]
        res["checks"][c] = {"exit": p.returncode, "signatures": sigs[:8], "summary": p.stdout.strip().splitlines()[-1][:200] if p.stdout.strip() else ""}
    res["detected_by"] = [c for c, r in res["checks"].items() if r["exit"] == 1]
    res["ran"] = f"baseline suite + demo with/without change + ./run_check.py {' '.join(checks)} --tier {os.environ.get('TIER','quick')} with VERIF_REPO=<patched worktree>"
finally:
    subprocess.run(["git", "-C", "/repo", "worktree", "remove", "--force", wt])
json.dump(res, open(os.path.join(out, "meta.json"), "w"), indent=1)
print(json.dumps({k: res.get(k) for k in ("property", "summary", "confirmed", "suite_passes", "demo_without_change", "demo_with_change", "detected_by")}, indent=1))
for c, r in res.get("checks", {}).items():
    print(c, r["exit"], r["signatures"][:3])
