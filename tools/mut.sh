#!/bin/bash
# usage: mut.sh <check-id> <file> <python-regex-old> <new>   -- applies one textual mutation in a scratch worktree, runs suite + check
set -u
ID=$1; FILE=$2; OLD=$3; NEW=$4
WT=$(mktemp -d /tmp/wt_mut.XXXXXX); rmdir $WT
git -C /repo worktree add -q --detach $WT HEAD || exit 3
/venv/bin/python - "$WT/$FILE" "$OLD" "$NEW" <<'PY'
import sys,re
f,old,new=sys.argv[1:4]
s=open(f).read()
n=s.count(old)
if n!=1: print(f"MUT: pattern occurs {n} times"); sys.exit(4)
open(f,'w').write(s.replace(old,new))
PY
rc=$?
if [ $rc -eq 0 ]; then
  (cd /verif && BASELINE_SHOW=2 tools/baseline.py $WT)
  for id in $ID; do (cd /verif && VERIF_EVIDENCE_DIR=$WT/.verif_evidence VERIF_OUT_DIR=$WT/.verif_out VERIF_REPO=$WT ./run_check.py $id --tier ${TIER:-quick} 2>&1 | grep -E "VIOLATION|signature|INFRA|tier=" | head -${LINES_MAX:-8}); done
fi
git -C /repo worktree remove --force $WT
