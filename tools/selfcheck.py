#!/venv/bin/python
"""setup-time sanity: sigma imports from /repo, schema files present."""
import os, sys
sys.path.insert(0, os.path.dirname(os.path.dirname(os.path.abspath(__file__))))
from mc import runner
runner.bind_repo()
import sigma.types
print("setup ok: sigma from", os.path.dirname(sigma.types.__file__))
