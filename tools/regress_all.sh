#!/bin/bash
# all kept seeded changes must be reported, all kept behaviour-preserving changes must stay silent (run from any copy of this tree)
here=$(cd "$(dirname "$0")/.." && pwd)
cd $here
JOBS=${JOBS:-3} tools/seed_regress.py > /verif/out/seed_regress_latest.txt 2>&1; echo "seed_regress exit=$?"
JOBS=${JOBS:-3} tools/neutral_regress.py > /verif/out/neutral_regress_latest.txt 2>&1; echo "neutral_regress exit=$?"
