#!/bin/bash
# kept behaviour-preserving changes must stay silent, kept seeded changes must be reported (run from any copy of this tree)
# usage: regress_all.sh [seed-name prefixes ...]   (default: every kept seed)
here=$(cd "$(dirname "$0")/.." && pwd)
cd $here
tools/neutral_regress.py > /verif/out/neutral_regress_latest.txt 2>&1; echo "neutral_regress exit=$?"
JOBS=${JOBS:-3} tools/seed_regress.py "$@" > /verif/out/seed_regress_latest.txt 2>&1; echo "seed_regress exit=$?"
