#!/venv/bin/python
"""Re-run every kept seeded change (/verif/seeded/<name>/patch.diff) against the current checks.
usage: seed_regress.py [name-prefix ...]     (env TIER=quick|thorough, JOBS=n)
For each seed: fresh scratch worktree of /repo HEAD outside /repo and /verif, apply the patch, run the property's own check with
VERIF_REPO pointing at the patched tree (evidence/out redirected into the worktree), expect exit 1; the worktree is removed.
Prints one line per seed and exits 1 if a seed is no longer detected. Nothing under /verif/evidence is touched."""
import concurrent.futures as cf, glob, json, os, subprocess, sys, tempfile

VERIF = os.path.dirname(os.path.dirname(os.path.abspath(__file__)))  # the tree this tool lives in (a snapshot when started through vp run)

sel = sys.argv[1:]
seeds = sorted(d for d in glob.glob(VERIF + "/seeded/*/") if os.path.exists(d + "patch.diff"))
if sel:
    seeds = [d for d in seeds if any(os.path.basename(d.rstrip("/")).startswith(s) for s in sel)]
tier = os.environ.get("TIER", "quick")


def one(d):
    name = os.path.basename(d.rstrip("/"))
    meta = json.load(open(d + "meta.json"))
    prop = meta["property"]
    if meta.get("disposition", "").startswith("not judged"):
        return name, prop, "not-judged", meta["disposition"][:120]
    checks = meta.get("regress_checks") or [prop]  # a change may be reported by the check of a neighbouring property instead
    wt = tempfile.mkdtemp(prefix="wt_regress_"); os.rmdir(wt)
    subprocess.run(["git", "-C", "/repo", "worktree", "add", "-q", "--detach", wt, "HEAD"], check=True)
    try:
        ap = subprocess.run(["git", "-C", wt, "apply", d + "patch.diff"], capture_output=True, text=True)
        if ap.returncode != 0:
            return name, prop, "patch-does-not-apply", ap.stderr[-200:]
        env = dict(os.environ, VERIF_REPO=wt, VERIF_EVIDENCE_DIR=os.path.join(wt, ".ev"), VERIF_OUT_DIR=os.path.join(wt, ".out"))
        verdict, info = "MISSED", ""
        for c in checks:
            p = subprocess.run([VERIF + "/run_check.py", c, "--tier", tier], cwd=VERIF, env=env, capture_output=True, text=True, timeout=7200)
            sigs = [l.strip()[11:] for l in p.stdout.splitlines() if l.strip().startswith("signature:")]
            if p.returncode == 1:
                return name, prop, "detected", (f"[{c}] " if c != prop else "") + "; ".join(sigs[:3])[:200]
            if p.returncode != 0:
                verdict, info = f"exit={p.returncode}", c
        return name, prop, verdict, info
    finally:
        subprocess.run(["git", "-C", "/repo", "worktree", "remove", "--force", wt])


bad = 0
with cf.ThreadPoolExecutor(int(os.environ.get("JOBS", "3"))) as ex:
    for name, prop, verdict, info in ex.map(one, seeds):
        print(f"{name:55s} {prop} {verdict:10s} {info}")
        bad += verdict not in ("detected", "not-judged")
subprocess.run(["git", "-C", "/repo", "worktree", "prune"])
sys.exit(1 if bad else 0)
