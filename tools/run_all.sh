#!/bin/bash
# run every claimed check (quick by default) against /repo, regenerate evidence, print one line each
cd /verif
TIER=${1:-quick}
rc=0
for id in $(/venv/bin/python -c "import json;print(' '.join(c['property_id'] for c in json.load(open('MANIFEST.json'))['checks']))"); do
  out=$(VERIF_SEED=${VERIF_SEED:-0} ./run_check.py $id --tier $TIER 2>&1); r=$?
  echo "$id exit=$r $(echo "$out" | tail -1 | cut -c1-160)"
  if [ $r -ne 0 ]; then rc=1; echo "$out" | grep -E "VIOLATION|signature|INFRA" | head -5; fi
done
python3-vt tools/validate_evidence.py evidence/*.json && echo "evidence valid"
exit $rc
