#!/venv/bin/python
"""Entry point: run_check.py <Cnn> [--tier quick|thorough] [--replay FILE] [--workers N]"""
import argparse, glob, os, sys

HERE = os.path.dirname(os.path.abspath(__file__))


def main():
    ap = argparse.ArgumentParser()
    ap.add_argument("prop")
    ap.add_argument("--tier", default=os.environ.get("VERIF_TIER", "quick"), choices=["quick", "thorough"])
    ap.add_argument("--replay")
    ap.add_argument("--workers", type=int, default=None)
    a = ap.parse_args()
    # own the hash order: every check runs with a fixed hash seed (C20 varies it in sub-processes itself)
    if os.environ.get("PYTHONHASHSEED") != "0":
        os.environ["PYTHONHASHSEED"] = "0"
        os.execv(sys.executable, [sys.executable] + sys.argv)
    sys.path.insert(0, HERE)
    from mc import runner

    mods = glob.glob(os.path.join(HERE, "checks", a.prop.lower() + "_*.py"))
    if len(mods) != 1:
        print(f"INFRA: no unique check module for {a.prop}: {mods}")
        return 2
    modname = "checks." + os.path.basename(mods[0])[:-3]
    seed = int(os.environ.get("VERIF_SEED", "0") or 0)
    if a.replay:
        return runner.run_replay(modname, a.replay)
    return runner.run(modname, a.tier, seed, a.workers)


if __name__ == "__main__":
    sys.exit(main())
