"""C02 - condition text parses to the boolean function it spells."""
import itertools
import re

from mc import trees as T
from mc.runner import add_violation, h64, new_result

PROPERTY = "C02"
LEVEL = "exploration"
RULE = (
    "four completely enumerated sub-spaces: (D) the same selector condition text parsed consecutively against 4 different detection-name sets (the parse cache is keyed by text); (A) all trees with <= k operators over 3 plain detection names, (B) all trees "
    "with <= k2 operators over the keyword-like name pool, (C) per detection-name set all trees with <= k3 operators over "
    "selectors (quantifier x pattern) and one name; each tree printed in several spellings (minimal parentheses, full "
    "parentheses, associativity-flattened, extra blanks/tabs); SigmaCondition(text).parsed is evaluated for all 2^n "
    "assignments of the detections and compared with the generating tree. non-trivial = tree with >= 1 operator or a selector; "
    "distinct by condition text."
)
RULE += (" " + 'Sub-space D: every selector condition text is parsed consecutively against different detection-name sets in both orders (parse results are cached per text); each parse must equal a first parse; the same text is also parsed against one long-lived detections object whose detections are replaced in place (same count, other names) before each parse.')
ASSUMPTIONS = [
    "each detection is one opaque atom {Fi: 'v'}; only selectors that match >= 1 detection are judged",
    "trees are the reference (conditions are printed from trees, no second parser)",
]
POOL = ["sel", "flt", "sel_a", "s-1", "notepad", "android", "oracle", "all_x", "anyone", "of_x", "them2", "a1", "nota", "or_1", "and-x", "Not", "1x", "x1of", "not-x", "or-1", "1-of", "con", "on", "c", "conditions"]
POOL_HAZ = ["sel", "notepad", "android", "oracle", "all_x", "of_x", "them2", "Not", "not-x", "1x", "con"]
NAMESETS = [
    ["sel", "sel_a", "flt_a", "_u"],
    ["sel1", "sel2", "_sel3", "_u"],
    ["s1l", "sel", "all_a", "_all_a"],
    ["them", "sel_them", "_them"],
    ["a", "ab", "abc", "_abc"],
    ["a", "aa", "aba", "_aca"],  # prefix and suffix of a*a overlap in the name 'a'
]
QUANT = ["1 of", "any of", "all of"]
PATTERNS = ["them", "sel*", "*_a", "s*l", "*", "_*", "a*c", "*b*", "a*a"]
BOUNDS = {"quick": dict(kA=3, kB=2, kC=2, kD=2), "thorough": dict(kA=4, kB=2, kC=2, kD=2, C_alphabet="full")}


def bounds(tier):
    b = dict(BOUNDS[tier])
    b.update(name_pool=POOL, name_sets=NAMESETS, quantifiers=QUANT, patterns=PATTERNS,
             spellings=["min-parens", "full-parens", "assoc-flattened", "extra-whitespace"],
             beyond="random expressions beyond the size bound are NOT explored")
    return b


def ref_selector_matches(pattern, names):
    if pattern == "them":
        return [n for n in names if not n.startswith("_")]
    rx = re.compile("".join(".*" if c == "*" else re.escape(c) for c in pattern))
    return [n for n in names if rx.fullmatch(n) and (pattern.startswith("_") or not n.startswith("_"))]


_DET = {}


_LIVE = {}


def detections_for(names):
    key = tuple(names)
    if key not in _DET:
        from sigma.rule import SigmaDetections

        d = {n: {f"F{i}": "v"} for i, n in enumerate(names)}
        d["condition"] = names[0]
        _DET[key] = SigmaDetections.from_dict(d)
    return _DET[key]


def eval_impl(node, env):
    from sigma.conditions import ConditionAND, ConditionFieldEqualsValueExpression, ConditionNOT, ConditionOR

    if isinstance(node, ConditionFieldEqualsValueExpression):
        return env[node.field]
    if isinstance(node, ConditionAND):
        return all(eval_impl(a, env) for a in node.args)
    if isinstance(node, ConditionOR):
        return any(eval_impl(a, env) for a in node.args)
    if isinstance(node, ConditionNOT):
        return not eval_impl(node.args[0], env)
    raise TypeError(f"unexpected node {type(node).__name__}")


def spellings(t):
    m = T.print_min(t)
    out = [("min", m), ("full", T.print_full(t)), ("flat", T.print_flat_assoc(t))]
    ws = m.replace(" ", "  ").replace("(", "( ").replace(")", " )")
    out.append(("ws", " " + ws.replace("  and  ", " \tand  ") + " "))
    seen, res = set(), []
    for k, s in out:
        if s not in seen:
            seen.add(s)
            res.append((k, s))
    return res


def ref_eval_leaf(leaf, names, env):
    """leaf: ("n", name) | ("s", quant, pattern)"""
    if leaf[0] == "n":
        return env[f"F{names.index(leaf[1])}"]
    ms = ref_selector_matches(leaf[2], names)
    vals = [env[f"F{names.index(n)}"] for n in ms]
    return all(vals) if leaf[1] == "all of" else any(vals)


def leaf_text(leaf):
    return leaf[1] if leaf[0] == "n" else f"{leaf[1]} {leaf[2]}"


def token_class(text, names):
    """mechanism class for signatures: which kind of word is involved"""
    cls = set()
    for w in re.findall(r"[\w*-]+", text):
        lw = w.lower()
        for kw in ("not", "and", "or", "all", "any", "of", "them", "1"):
            if lw.startswith(kw) and lw != kw and w in names:
                cls.add(f"name-with-keyword-prefix-{kw}" + ("-cased" if not w.startswith(kw) else ""))
    return sorted(cls)


def check_tree(res, t, names, sub):
    from sigma.conditions import SigmaCondition
    from sigma.exceptions import SigmaError

    dets = detections_for(names)
    used = sorted({f"F{names.index(l[1])}" for l in T.leaves_of(t) if l[0] == "n"} |
                  {f"F{names.index(n)}" for l in T.leaves_of(t) if l[0] == "s" for n in ref_selector_matches(l[2], names)})
    envs = list(T.assignments(used))
    full_env = lambda e: {f"F{i}": e.get(f"F{i}", False) for i in range(len(names))}
    want = [T.evaluate(t, lambda leaf, e=full_env(e): ref_eval_leaf(leaf, names, e)) for e in envs]
    for kind, text in spellings(T_map(t)):
        case = {"names": names, "text": text, "sub": sub}
        res["evaluations"] += 1
        try:
            if sub == "D":
                # the raw (not post-processed) tree handed out for this text is resolved by the caller against these detections
                # first, as validators do; the tree obtained afterwards through .parsed must not be affected by that
                try:
                    raw = SigmaCondition(text, dets).parse(False)
                    raw.postprocess(dets)
                except SigmaError:
                    pass
            parsed = SigmaCondition(text, dets).parsed
        except SigmaError as e:
            cls = token_class(text, names)
            sig = "parse:sigma-error:" + (",".join(cls) if cls else f"plain:{kind}")
            add_violation(res, sig, case, "parse tree", repr(e)[:200])
            continue
        except Exception as e:
            add_violation(res, "parse:non-sigma-exception:" + type(e).__name__, case, "parse tree", repr(e)[:200])
            continue
        try:
            got = [eval_impl(parsed, full_env(e)) for e in envs]
        except Exception as e:
            add_violation(res, "eval:unexpected-tree:" + type(e).__name__, case, "boolean tree", repr(e)[:200])
            continue
        res["outcomes"].add(h64(got))
        if sub == "D" and got == want:
            # one long-lived detections object per name count whose detections are replaced in place (as pipelines and callers do) before
            # the same text is parsed against it: the tree must be built from the names the object holds now
            live = _LIVE.get(len(names))
            if live is None:
                from sigma.rule import SigmaDetections

                live = _LIVE[len(names)] = SigmaDetections.from_dict(dict({n: {f"F{i}": "v"} for i, n in enumerate(names)}, condition=names[0]))
            else:
                fresh = dict(detections_for(names).detections)
                live.detections.clear()
                live.detections.update(fresh)
            try:
                got_live = [eval_impl(SigmaCondition(text, live).parsed, full_env(e)) for e in envs]
            except Exception as e:
                got_live = repr(e)[:200]
            if got_live != want:
                add_violation(res, "function-differs:D:detections-object-renamed-in-place:" + kind, case, {"values": want[:8]}, {"values": got_live if isinstance(got_live, str) else got_live[:8]})
        if got != want:
            cls = token_class(text, names)
            sig = "function-differs:" + (",".join(cls) if cls else f"{sub}:{kind}")
            k = next(i for i in range(len(envs)) if got[i] != want[i])
            add_violation(res, sig, case, {"assignment": envs[k], "value": want[k]}, {"value": got[k], "tree": repr(parsed)[:300]})
        if T.count_ops(t) >= 1 or any(l[0] == "s" for l in T.leaves_of(t)):
            res["nontrivial"].add(h64(text))
    if len(res["samples"]) < 2 and T.count_ops(t) >= 2:
        res["samples"].append({"names": names, "text": T.print_min(T_map(t))})


def T_map(t):
    """tree with leaves replaced by their text"""
    if t[0] == "leaf":
        return ("leaf", leaf_text(t[1]))
    return (t[0],) + tuple(T_map(x) for x in t[1:])


def space(tier):
    """yield (sub, names, tree) for the whole bounded space, deterministic order"""
    b = BOUNDS[tier]
    namesA = ["sel", "flt", "s-1"]
    for t in T.trees_upto(b["kA"], [("n", n) for n in namesA]):
        yield "A", namesA, t
    if tier == "quick":  # full pool up to 1 operator, the most hazardous names up to kB
        for t in T.trees_upto(1, [("n", n) for n in POOL]):
            yield "B", POOL, t
        for t in T.trees_upto(b["kB"], [("n", n) for n in POOL_HAZ]):
            if T.count_ops(t) >= 2:
                yield "B", POOL, t
    else:
        for t in T.trees_upto(b["kB"], [("n", n) for n in POOL]):
            yield "B", POOL, t
    for names in NAMESETS:
        leaves = [("n", names[0])]
        for q in QUANT:
            for p in PATTERNS + [names[1]]:
                if ref_selector_matches(p, names):
                    leaves.append(("s", q, p))
        # full alphabet up to 1 operator, reduced alphabet (one quantifier spelling per pattern class) up to kC
        for t in T.trees_upto(1, leaves):
            yield "C", names, t
        red = [l for l in leaves if l[0] == "n" or l[1] != "any of"]
        red = [l for i, l in enumerate(red) if l[0] == "n" or l[2] in ("them", "sel*", "*_a", "_*", "*", "a*c")]
        for t in T.trees_upto(b["kC"], leaves if b.get("C_alphabet") == "full" else red):
            if T.count_ops(t) >= 2:
                yield "C", names, t


D_NAMESETS = [["sel", "sel_a", "flt_a", "_u"], ["sel", "sel1", "x_a"], ["sel", "sel_b", "sel_c", "_sel_d", "y_a"], ["sel", "other_a", "_v"]]
D_PATTERNS = ["them", "sel*", "*_a", "_*", "*"]


def space_D(tier):
    """the SAME condition text parsed back-to-back against different detection-name sets (parse results are cached per text)"""
    leaves = [("n", "sel")] + [("s", q, p) for q in ("1 of", "all of") for p in D_PATTERNS]
    for t in T.trees_upto(BOUNDS[tier]["kD"], leaves):
        for names in D_NAMESETS:
            if all(l[0] == "n" or ref_selector_matches(l[2], names) for l in T.leaves_of(t)):
                yield "D", names, t


NSH = 64


def plan(tier, seed):
    return list(range(NSH))


def run_shard(shard, tier, seed):
    res = new_result()
    for idx, (sub, names, t) in enumerate(space(tier)):
        if idx % NSH == shard:
            check_tree(res, t, names, sub)
    # sub-space D is sharded by tree so that all name sets of one text are parsed consecutively in one process
    last, n = None, -1
    for sub, names, t in space_D(tier):
        if t is not last:
            last, n = t, n + 1
        if n % NSH == shard:
            check_tree(res, t, names, sub)
    return res


def replay(case):
    """re-parse exactly that text; the expected function is recomputed from the text by the reference printer's inverse:
    the case stores names and text, the tree is recovered by searching the (small) space for that text"""
    res = new_result()
    for tier in ("quick", "thorough"):
        for sub, names, t in space(tier):
            if names == case["names"] and any(s == case["text"] for _, s in spellings(T_map(t))):
                check_tree(res, t, names, sub)
                return [v for v in res["violations"] if v["case"]["text"] == case["text"]]
    return res["violations"]
