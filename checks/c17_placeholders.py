"""C17 - placeholders expand completely or conversion fails; never emitted as text."""
import itertools
import re

from mc import formula as F
from mc import qparse as Q
from mc import refsigma as R
from mc import vbackend as V
from mc.runner import add_violation, h64, new_result

PROPERTY = "C17"
LEVEL = "exploration"
RULE = (
    "every value made of <= n parts over {literal, wildcard, %P1%, %P2%, %P3%, escaped percent} (<= 3 placeholders) in "
    "string, keyword and regular-expression position under {none, contains, startswith, endswith, all} x every pipeline "
    "of <= m items from {value list, wildcard, query expression} x {no list, include [P1], exclude [P1]} x variable tables; "
    "the emitted query is decoded and compared (truth table) with the reference expansion, or the rule must fail with a "
    "SigmaError naming an unresolved placeholder; no query may contain %Pi%. non-trivial = value with >= 1 placeholder and "
    ">= 1 pipeline item; distinct by (rule, pipeline)."
)
RULE += (" " + "Modifier variants include 'all' on a single value and case-sensitive values. For single value-list items the same transformation objects are first combined with another variable table, then with the judged one (differential).")
ASSUMPTIONS = ["reference expansion semantics in this module (cross product, OR-linked, wildcard, query expression for placeholder-only values, include/exclude)",
               "decoder mc/qparse.py; verification backend K0"]
PARTS = ["a", "*", "%P1%", "%P2%", "%P3%", "\\%x\\%"]
RE_PARTS = ["a", ".*", "%P1%", "%P2%", "\\%x\\%"]
MODS = ["", "contains", "startswith", "endswith", "all", "all1", "cased", "cased|contains"]  # all1: the 'all' modifier on a single value
VARTABLES = {
    "T0": {"P1": ["x", "y"], "P2": "z", "P3": 7},
    "T1": {"P1": ["x"], "P2": ["u", "v", "w*"]},
    "T2": {"P1": ["x", None], "P2": []},
    "T3": {},
}
ITEM_KINDS = ["VL", "WC", "QE"]
LISTS = [("none", None), ("include", ["P1"]), ("exclude", ["P1"])]
BOUNDS = {"quick": dict(parts=3, re_parts=2, items=2), "thorough": dict(parts=4, re_parts=3, items="2 (3 for values of <= 2 parts)")}
K = V.K()


def bounds(tier):
    return dict(BOUNDS[tier], part_alphabet=PARTS, regex_part_alphabet=RE_PARTS, modifiers=MODS, var_tables=VARTABLES, item_kinds=ITEM_KINDS,
                lists=[l[0] for l in LISTS])


NPARTS = {}


def values(alpha, maxparts):
    for n in range(1, maxparts + 1):
        for t in itertools.product(alpha, repeat=n):
            if sum(1 for p in t if re.fullmatch(r"%P\d%", p)) <= 3:
                v = "".join(t)
                NPARTS.setdefault(v, n)
                yield v


def pipelines(maxitems):
    """(items, vartable-name): items = tuple of (kind, listname)"""
    itemtypes = [(k, l[0]) for k in ITEM_KINDS for l in LISTS]
    yield (), "T3"
    for n in range(1, maxitems + 1):
        for seq in itertools.product(itemtypes, repeat=n):
            if any(k == "VL" for k, _ in seq):
                for vt in VARTABLES:
                    yield seq, vt
            else:
                yield seq, "T3"


def build_pipeline(items, vt):
    from sigma.processing.pipeline import ProcessingPipeline

    ts = []
    for kind, lname in items:
        d = {"type": {"VL": "value_placeholders", "WC": "wildcard_placeholders", "QE": "query_expression_placeholders"}[kind]}
        lst = dict(LISTS)[lname]
        if lst is not None:
            d[lname] = list(lst)
        if kind == "QE":
            d["expression"] = "QE<{field}|{id}>"
        ts.append(d)
    return ProcessingPipeline.from_dict({"name": "c17", "priority": 10, "vars": dict(VARTABLES[vt]), "transformations": ts})


# ------------------------------------------------------------------------------------------------ reference
class RuleFails(Exception):
    def __init__(self, why, names=()):
        self.why, self.names = why, tuple(names)


class Unspec(Exception):
    pass


def handled(name, lname):
    lst = dict(LISTS)[lname]
    return lst is None or (lname == "include" and name in lst) or (lname == "exclude" and name not in lst)


def ref_item_str(parts, item, vt):
    """one pipeline item on one string value (parts with ("P",name)); returns list of values (each ('str', parts) or ('query', id))"""
    kind, lname = item
    phs = [p[1] for p in parts if isinstance(p, tuple)]
    hs = [n for n in phs if handled(n, lname)]
    if kind == "QE":
        if not phs:
            return [("str", parts)]
        if len(parts) == 1:
            return [("query", phs[0])] if hs else [("str", parts)]
        if hs:
            raise RuleFails("query expression on a mixed value")
        raise Unspec("query expression item on a mixed value whose placeholders it does not handle")
    if not hs:
        return [("str", parts)]
    if kind == "WC":
        return [("str", R.norm([R.MULTI if (isinstance(p, tuple) and handled(p[1], lname)) else p for p in parts]))]
    # value list
    table = VARTABLES[vt]
    choices = []
    for p in parts:
        if isinstance(p, tuple) and handled(p[1], lname):
            if p[1] not in table:
                raise RuleFails("variable missing", [p[1]])
            vs = table[p[1]]
            vs = vs if isinstance(vs, list) else [vs]
            if not vs or not all(isinstance(v, (str, int, float)) and not isinstance(v, bool) for v in vs):
                if any(isinstance(v, bool) for v in vs):
                    raise Unspec("boolean variable value")
                raise RuleFails("variable value of wrong type / empty", [p[1]])
            choices.append([R.parse_sigma_string(str(v)) for v in vs])
        else:
            choices.append([(p,)])
    return [("str", R.norm([x for c in combo for x in c])) for combo in itertools.product(*choices)]


def ref_expand_str(values, items, vt):
    """values: list of ('str', parts); returns final list or raises"""
    cur = list(values)
    for it in items:
        nxt = []
        for v in cur:
            if v[0] != "str":
                nxt.append(v)
            else:
                nxt.extend(ref_item_str(v[1], it, vt))
        cur = nxt
    left = [p[1] for v in cur if v[0] == "str" for p in v[1] if isinstance(p, tuple)]
    if left:
        raise RuleFails("unresolved placeholder", left)
    return cur


def ref_regex(text, items, vt):
    """regex text with %Pn% placeholders -> list of regex texts or raises"""
    toks = re.findall(r"\\%|%P\d%|.", text, re.S)
    parts = []
    for t in toks:
        if re.fullmatch(r"%P\d%", t):
            parts.append(("P", t[1:-1]))
        elif t == "\\%":
            parts.append("%")
        else:
            parts.append(t)
    cur = [tuple(parts)]
    for kind, lname in items:
        nxt = []
        for v in cur:
            hs = [p[1] for p in v if isinstance(p, tuple) and handled(p[1], lname)]
            if not hs or kind == "QE":
                nxt.append(v)
                continue
            if kind == "WC":
                nxt.append(tuple(".*" if (isinstance(p, tuple) and handled(p[1], lname)) else p for p in v))
                continue
            table = VARTABLES[vt]
            choices = []
            for p in v:
                if isinstance(p, tuple) and handled(p[1], lname):
                    if p[1] not in table:
                        raise RuleFails("variable missing", [p[1]])
                    vs = table[p[1]]
                    vs = vs if isinstance(vs, list) else [vs]
                    if not vs or not all(isinstance(x, (str, int, float)) and not isinstance(x, bool) for x in vs):
                        raise RuleFails("variable value of wrong type / empty", [p[1]])
                    if any("*" in str(x) or "\\" in str(x) for x in vs):
                        raise Unspec("wildcard/backslash variable value inside a regular expression")
                    choices.append([(str(x),) for x in vs])
                else:
                    choices.append([(p,)])
            for combo in itertools.product(*choices):
                nxt.append(tuple(x for c in combo for x in c))
        cur = nxt
    left = [p[1] for v in cur for p in v if isinstance(p, tuple)]
    if left:
        raise RuleFails("unresolved placeholder", left)
    return ["".join(v) for v in cur]


# ------------------------------------------------------------------------------------------------
def make_rule(pos, mod, value):
    single = mod == "all1"
    if single:
        mod = "all"
    if pos == "str":
        key = "f1|expand" + ("|" + mod if mod else "")
    elif pos == "kw":
        key = "|expand" + ("|" + mod if mod else "")
    else:
        key = "f1|re|expand" + ("|" + mod if mod else "")
    val = [value, "zz"] if mod == "all" and not single else value
    return {"title": "t", "logsource": {"category": "c"}, "detection": {"sel": {key: val}, "condition": "sel"}}, key, val


def reference(pos, mod, value, items, vt):
    """expected formula or raises RuleFails/Unspec"""
    field = None if pos == "kw" else "f1"
    raw = [value, "zz"] if mod == "all" else [value]
    if mod == "all1":
        mod = "all"
    if pos == "re":
        if mod in ("contains", "startswith", "endswith"):
            raise Unspec("contains-family on a regex with placeholders")
        outs = []
        for r in raw:
            texts = ref_regex(r, items, vt)
            for t in texts:
                try:
                    re.compile(t)
                except re.error:
                    raise RuleFails("invalid regex after expansion")
            outs.append(F.OR([F.a_re(field, t, ()) for t in texts]))
        return F.AND(outs) if mod == "all" else F.OR(outs)
    chain = ["expand"] + (mod.split("|") if mod else [])
    try:
        vals, linking, neg = R.apply_chain(raw, chain, has_field=field is not None)
    except R.Reject:
        raise RuleFails("modifier rejects")
    except R.Unspecified as e:
        raise Unspec(str(e))
    outs = []
    for v in vals:
        fin = ref_expand_str([("str", v[2])], items, vt)
        fs = []
        for x in fin:
            if x[0] == "query":
                if field is None:
                    raise RuleFails("query expression with {field} on a keyword")
                fs.append(F.a_query(field, x[1]))
            else:
                fs.append(F.a_str(field, bool(v[1]), x[1]))  # replacements keep the case sensitivity of the value
        outs.append(F.OR(fs))
    return F.AND(outs) if linking == "and" else F.OR(outs)


def judge(res, pos, mod, value, items, vt):
    from sigma.exceptions import SigmaError
    from sigma.rule import SigmaRule

    ruled, key, val = make_rule(pos, mod, value)
    case = {"pos": pos, "mod": mod, "value": value, "items": [list(i) for i in items], "vars": vt}
    res["evaluations"] += 1
    nph = len(re.findall(r"%P\d%", value))
    if nph and items:
        res["nontrivial"].add(h64(case))
    try:
        ref = ("ok", reference(pos, mod, value, items, vt))
    except RuleFails as e:
        ref = ("fail", e.why, e.names)
    except Unspec as e:
        ref = ("unspec", str(e))
    cls = V.make_backend_class(K)
    try:
        rule = SigmaRule.from_dict(ruled)
        qs = cls(build_pipeline(items, vt)).convert_rule(rule)
        got = ("ok", qs)
    except SigmaError as e:
        got = ("fail", type(e).__name__, str(e))
    except Exception as e:
        add_violation(res, f"non-sigma-exception:{type(e).__name__}:{pos}", case, ref[0], repr(e)[:300])
        return
    res["outcomes"].add(h64([ref[0], got[0], got[1] if got[0] == "fail" else len(got[1])]))
    kinds = "+".join(sorted({k for k, _ in items})) or "none"
    if nph and len(items) == 1 and items[0][0] == "VL":
        # the same transformation objects combined with another variable table first, then with this one
        from sigma.processing.pipeline import ProcessingPipeline

        other = "T1" if vt != "T1" else "T0"
        try:
            base = build_pipeline(items, "T3")
            for table in (other, vt):
                comb = base + ProcessingPipeline.from_dict({"name": "vars", "priority": 20, "vars": dict(VARTABLES[table])})
                try:
                    again = ("ok", cls(comb).convert_rule(SigmaRule.from_dict(ruled)))
                except SigmaError as e:
                    again = ("fail", type(e).__name__, str(e))
            if again != got:
                add_violation(res, f"result-depends-on-variable-table-used-before:{pos}", dict(case, earlier_vars=other), got, again)
                return
        except Exception as e:
            add_violation(res, f"non-sigma-exception:{type(e).__name__}:{pos}:reuse", case, got, repr(e)[:300])
            return
    if got[0] == "ok":
        for q in got[1]:
            if re.search(r"%P\d%", q):
                add_violation(res, f"placeholder-text-in-query:{pos}", case, "no %Pn% in any query", q)
                return
    if ref[0] == "unspec":
        return
    if ref[0] == "fail":
        if got[0] == "ok":
            add_violation(res, f"converted-but-must-fail:{ref[1]}:{pos}:{kinds}", case, ref[1], got[1])
        elif ref[1] == "unresolved placeholder" and not any(n in got[2] for n in ref[2]):
            add_violation(res, f"error-does-not-name-placeholder:{pos}", case, list(ref[2]), got[2][:200])
        return
    if got[0] == "fail":
        add_violation(res, f"failed-but-must-convert:{got[1]}:{pos}:{kinds}", case, F.show(ref[1])[:300], got[2][:300])
        return
    if len(got[1]) != 1:
        add_violation(res, f"query-count:{pos}", case, 1, got[1])
        return
    try:
        dec = Q.qparse(got[1][0], K)
    except Q.QParseError as e:
        add_violation(res, f"query-not-in-target-grammar:{pos}:{kinds}", case, F.show(ref[1])[:300], {"query": got[1][0], "error": str(e)[:200]})
        return
    try:
        eq, cex = F.equivalent(ref[1], dec)
    except F.TooManyAtoms:
        return
    if not eq:
        add_violation(res, f"not-equivalent:{pos}:{mod or 'plain'}:{kinds}", case, F.show(ref[1])[:400], {"query": got[1][0], "cex": cex})


def space(tier):
    b = BOUNDS[tier]
    pls = list(pipelines(2 if tier == "quick" else 3))
    for pos, alpha, n in (("str", PARTS, b["parts"]), ("kw", PARTS, b["parts"]), ("re", RE_PARTS, b["re_parts"])):
        for v in values(alpha, n):
            for mod in MODS:
                if mod.startswith("cased") and pos != "str":
                    continue  # case-sensitive matching is defined for field-bound strings only
                yield pos, mod, v, pls


NSH = 64


def plan(tier, seed):
    return list(range(NSH))


def run_shard(shard, tier, seed):
    res = new_result()
    for idx, (pos, mod, v, pls) in enumerate(space(tier)):
        if idx % NSH != shard:
            continue
        has_ph = "%P" in v
        for items, vt in pls:
            if not has_ph and len(items) > 1:
                continue  # values without placeholders: single items suffice (items are no-ops on them)
            if len(items) >= 3 and NPARTS.get(v, 9) > 2:
                continue  # pipelines of three items only with values of <= 2 parts (the full product is ~1e8 conversions)
            judge(res, pos, mod, v, items, vt)
        if len(res["samples"]) < 2 and has_ph:
            res["samples"].append({"pos": pos, "mod": mod, "value": v, "pipelines": len(pls)})
    return res


def replay(case):
    res = new_result()
    judge(res, case["pos"], case["mod"], case["value"], tuple(tuple(i) for i in case["items"]), case["vars"])
    return res["violations"]
