"""C13 - a pipeline item acts exactly where its conditions hold."""
import copy
import itertools
import re

from mc import explore as E
from mc import trees as T
from mc.runner import add_violation, h64, new_result

PROPERTY = "C13"
LEVEL = "model_checking"
RULE = (
    "explicit-state exploration (each case also after the same pipeline object processed a previous rule, for conditions on applied items / state): state = (items applied so far to the rule / each detection item / each field, pipeline state) "
    "reached by every history of <= 2 preceding items from {set_state, change_logsource, rename with id m0}; transition = "
    "applying the judged item. The judged item carries a marker transformation (field_name_suffix: fields, field references, "
    "fields list; case upper: string values incl. keywords) and condition groups enumerated as: one group (rule / detection "
    "item / field name) swept completely - every list of 1-2 pool conditions x linking and/or x negation flag, and every "
    "expression tree up to the operator bound over 3 condition identifiers - while the other two groups range over {absent, "
    "true, false, negated-true, negated-false}; plus the full 5x5x5 product of the reduced forms. Invariant: the set of "
    "targets carrying the marker equals the reference evaluation of the conditions on the source document and the model of "
    "'applied so far'. non-trivial = item with >= 1 condition."
)
RULE += (" " + 'Further sub-spaces: X - two or three condition groups of one item carry the same expression text bound to different conditions; G - a preceding hashes_fields item replaces a detection item by a group of new items (applied-conditions on the new items); K - rule conditions on correlation rules of depth <= 3 (log source of any transitively referenced rule). The probe rule contains a case-sensitive item and a keyword item; field-name patterns that match the empty string are in the pool.')
ASSUMPTIONS = ["reference meaning of every pool condition, linking, negation, expression and of the three preceding items in this module",
               "marker(target) <=> rule group AND detection-item group (of the containing item) AND field-name group (of that name)"]
BOUNDS = {"quick": dict(expr_ops=2, pre=2), "thorough": dict(expr_ops=3, pre=2)}

RULE_D = {
    "title": "probe", "logsource": {"category": "process_creation", "product": "windows"}, "tags": ["attack.t1"],
    "fields": ["f1", "f5", "g1"],
    "detection": {
        "sel": {"f1": "a*", "f2": 5, "f3|fieldref": "f1"},
        "flt": {"f1": "b", "f4": None, "f6|cased": "b"},
        "kw": ["k"],
        "condition": "sel and not flt or kw",
    },
}
ITEMS = [("sel", 0, "f1", [("str", "a*")]), ("sel", 1, "f2", [("num", 5)]), ("sel", 2, "f3", [("ref", "f1")]),
         ("flt", 0, "f1", [("str", "b")]), ("flt", 1, "f4", [("null", None)]), ("flt", 2, "f6", [("str", "b")]), ("kw", 0, None, [("str", "k")])]

PRE = {
    "ps": {"id": "ps", "type": "set_state", "key": "k", "val": "v"},
    "cl": {"id": "cl", "type": "change_logsource", "product": "linux"},
    "m0": {"id": "m0", "type": "field_name_mapping", "mapping": {"f1": "g1"}},
    "p0": {"id": "p0", "type": "set_state", "key": "z", "val": 0},  # a state value that is falsy in Python (only in the small history set)
}
PRE_FULL = ["ps", "cl", "m0"]

# pool: name -> (yaml dict, reference function(state, target))
RULE_POOL = {
    "ls_win": {"type": "logsource", "product": "windows"},
    "ls_lin": {"type": "logsource", "product": "linux"},
    "cf_f2": {"type": "contains_field", "field": "f2"},
    "cf_g1": {"type": "contains_field", "field": "g1"},
    "cdi_5": {"type": "contains_detection_item", "field": "f2", "value": 5},
    "cdi_6": {"type": "contains_detection_item", "field": "f2", "value": 6},
    "cdi_s5": {"type": "contains_detection_item", "field": "f2", "value": "5"},  # the string "5" is not the number 5
    "is_rule": {"type": "is_sigma_rule"},
    "is_corr": {"type": "is_sigma_correlation_rule"},
    "attr_t": {"type": "rule_attribute", "attribute": "title", "value": "probe"},
    "attr_f": {"type": "rule_attribute", "attribute": "title", "value": "other", "op": "eq"},
    "tag_t": {"type": "tag", "tag": "attack.t1"},
    "tag_f": {"type": "tag", "tag": "attack.t2"},
    "app_m0": {"type": "processing_item_applied", "processing_item_id": "m0"},
    "app_ps": {"type": "processing_item_applied", "processing_item_id": "ps"},
    "st_kv": {"type": "processing_state", "key": "k", "val": "v"},
    "st_ne": {"type": "processing_state", "key": "k", "val": "v", "op": "ne"},
    "st_z0": {"type": "processing_state", "key": "z", "val": 0},
    "st_z0ne": {"type": "processing_state", "key": "z", "val": 1, "op": "ne"},
}
DI_POOL = {
    "ms_a": {"type": "match_string", "cond": "any", "pattern": "^a"},
    "ms_all": {"type": "match_string", "cond": "all", "pattern": "^[ab]"},
    "mv_5": {"type": "match_value", "cond": "any", "value": 5},
    "mv_b": {"type": "match_value", "cond": "any", "value": "b"},
    "wc": {"type": "contains_wildcard", "cond": "any"},
    "null": {"type": "is_null", "cond": "any"},
    "app_m0": {"type": "processing_item_applied", "processing_item_id": "m0"},
    "st_kv": {"type": "processing_state", "key": "k", "val": "v"},
}
FN_POOL = {
    "inc_f1g1": {"type": "include_fields", "fields": ["f1", "g1"]},
    "inc_f3": {"type": "include_fields", "fields": ["f3", "f5"]},
    "exc_f1": {"type": "exclude_fields", "fields": ["f1", "f2"]},
    "inc_re": {"type": "include_fields", "fields": ["^[fg]1$", "^f4"], "mode": "re"},
    "app_m0": {"type": "processing_item_applied", "processing_item_id": "m0"},
    "st_kv": {"type": "processing_state", "key": "k", "val": "v"},
    # patterns that also match the empty string: a keyword item has no field name, nothing matches it
    "inc_re_e": {"type": "include_fields", "fields": ["^(?!f1).*", "[A-Z]*$"], "mode": "re"},
    "exc_re_e": {"type": "exclude_fields", "fields": ["^(?!f[12]).*$"], "mode": "re"},
}


def bounds(tier):
    return dict(BOUNDS[tier], rule_pool=len(RULE_POOL), detection_item_pool=len(DI_POOL), field_name_pool=len(FN_POOL), preceding=list(PRE), markers=["suffix", "upper"])


# ------------------------------------------------------------------------------------------------ reference model
class Model:
    def __init__(self):
        self.product = "windows"
        self.items = [dict(det=d, pos=p, field=f, values=[list(v) for v in vals], applied=set()) for d, p, f, vals in ITEMS]
        self.fields = ["f1", "f5", "g1"]
        self.state = {}
        self.rule_applied = set()
        self.field_applied = {}

    def pre(self, name):
        if name == "ps":
            self.state["k"] = "v"
            self.rule_applied.add("ps")
        elif name == "p0":
            self.state["z"] = 0
            self.rule_applied.add("p0")
        elif name == "cl":
            self.product = "linux"
            self.rule_applied.add("cl")
        elif name == "m0":
            self.rule_applied.add("m0")
            for it in self.items:
                hit = False
                for v in it["values"]:
                    if v[0] == "ref" and v[1] == "f1":
                        v[1] = "g1"
                        hit = True
                if it["field"] == "f1":
                    it["field"] = "g1"
                    hit = True
                if hit:
                    it["applied"].add("m0")
            self.fields = ["g1" if f == "f1" else f for f in self.fields]
            self.field_applied["g1"] = {"m0"}

    # leaf semantics ---------------------------------------------------------------------------
    def rule_cond(self, c):
        t = c["type"]
        if t == "logsource":
            return self.product == c["product"]
        if t == "contains_field":
            return any(it["field"] == c["field"] for it in self.items)
        if t == "contains_detection_item":
            return any(it["field"] == c["field"] and any(v[0] == "num" and v[1] == c["value"] for v in it["values"]) for it in self.items)
        if t == "is_sigma_rule":
            return True
        if t == "is_sigma_correlation_rule":
            return False
        if t == "rule_attribute":
            return "probe" == c["value"]
        if t == "tag":
            return c["tag"] == "attack.t1"
        if t == "processing_item_applied":
            return c["processing_item_id"] in self.rule_applied
        if t == "processing_state":
            return self.state_cond(c)
        raise ValueError(t)

    def state_cond(self, c):
        if c["key"] not in self.state:
            return False
        eq = self.state[c["key"]] == c["val"]
        return eq if c.get("op", "eq") == "eq" else not eq

    def di_cond(self, c, it):
        t = c["type"]
        vals = it["values"]
        f = any if c.get("cond") == "any" else all
        if t == "match_string":
            return f(v[0] == "str" and re.match(c["pattern"], v[1]) is not None for v in vals)
        if t == "match_value":
            return f((v[0] == "num" and v[1] == c["value"]) or (v[0] == "str" and isinstance(c["value"], str) and v[1] == c["value"]) for v in vals)
        if t == "contains_wildcard":
            return f(v[0] == "str" and ("*" in v[1] or "?" in v[1]) for v in vals)
        if t == "is_null":
            return f(v[0] == "null" for v in vals)
        if t == "processing_item_applied":
            return c["processing_item_id"] in it["applied"]
        if t == "processing_state":
            return self.state_cond(c)
        raise ValueError(t)

    def fn_cond(self, c, name, item=None):
        t = c["type"]
        if t == "include_fields":
            if name is None:
                return False
            if c.get("mode") == "re":
                return any(re.match(p, name) for p in c["fields"])
            return name in c["fields"]
        if t == "exclude_fields":
            if c.get("mode") == "re":
                return not (name is not None and any(re.match(p, name) for p in c["fields"]))
            return not (name is not None and name in c["fields"])
        if t == "processing_item_applied":
            return name is not None and c["processing_item_id"] in self.field_applied.get(name, set())
        if t == "processing_state":
            return self.state_cond(c)
        raise ValueError(t)


def eval_group(group, leaf):
    """group: None | ('list', [names], linking, neg) | ('expr', tree over names, neg); leaf(name)->bool"""
    if group is None:
        return True
    if group[0] == "list":
        _, names, linking, neg = group
        if not names:  # "an item without conditions always applies"
            return True
        vals = [leaf(n) for n in names]
        r = all(vals) if linking == "and" else any(vals)
        return (not r) if neg else r
    _, tree, neg = group
    r = T.evaluate(tree, leaf)
    return (not r) if neg else r


def group_yaml(prefix, group, pool):
    """yaml keys for one group"""
    if group is None:
        return {}
    d = {}
    if group[0] == "list":
        _, names, linking, neg = group
        d[f"{prefix}_conditions"] = [copy.deepcopy(pool[n]) for n in names]
        if linking != "and" or len(names) > 1:
            d[f"{prefix}_cond_op"] = linking
        if neg:
            d[f"{prefix}_cond_not"] = True
        return d
    _, tree, neg = group
    names = sorted(set(T.leaves_of(tree)))
    ident = {n: "c" + str(i) for i, n in enumerate(names)}
    d[f"{prefix}_conditions"] = {ident[n]: copy.deepcopy(pool[n]) for n in names}
    d[f"{prefix}_cond_expr"] = T.print_min(tree, leaf=lambda n: ident[n])
    if neg:
        d[f"{prefix}_cond_not"] = True
    return d


def has_conditions(groups):
    return any(g is not None for g in groups)


# ------------------------------------------------------------------------------------------------ implementation run
def run_impl(pre, marker, groups, prev=False):
    from sigma.processing.pipeline import ProcessingPipeline
    from sigma.rule import SigmaRule
    from sigma.types import SigmaFieldReference, SigmaString

    item = {"id": "judged"}
    if marker == "suffix":
        item.update(type="field_name_suffix", suffix="_M")
    else:
        item.update(type="case", method="upper")
    item.update(group_yaml("rule", groups[0], RULE_POOL))
    item.update(group_yaml("detection_item", groups[1], DI_POOL))
    item.update(group_yaml("field_name", groups[2], FN_POOL))
    pd = {"name": "c13", "priority": 1, "transformations": [copy.deepcopy(PRE[p]) for p in pre] + [item]}
    pipe = ProcessingPipeline.from_dict(pd)
    if prev:  # the same pipeline object processed another rule before (m0-style rename, state, tracking must not carry over)
        pd_prev = {"title": "prev", "logsource": {"category": "process_creation", "product": "windows"}, "fields": ["f1", "g1"],
                   "detection": {"sel": {"f1": "a*", "f3|fieldref": "f1"}, "condition": "sel"}}
        warm = ProcessingPipeline.from_dict({"name": "warm", "priority": 1, "transformations": [copy.deepcopy(PRE[p]) for p in ("ps", "m0")]})
        warm_items = warm.items
        saved = pipe.items
        pipe.items = warm_items + saved  # run the history items once on the previous rule through THIS pipeline object
        pipe._clear_pipeline(); warm._clear_pipeline(); pipe.set_pipeline()
        pipe.apply(SigmaRule.from_dict(pd_prev))
        pipe.items = saved
        pipe._clear_pipeline(); pipe.set_pipeline()
    rule = SigmaRule.from_dict(copy.deepcopy(RULE_D))
    pipe.apply(rule)
    marked = set()
    for det in ("sel", "flt", "kw"):
        for pos, di in enumerate(rule.detection.detections[det].detection_items):
            if marker == "suffix":
                if di.field is not None and di.field.endswith("_M"):
                    marked.add(("field", det, pos))
                for v in di.value:
                    if isinstance(v, SigmaFieldReference) and v.field.endswith("_M"):
                        marked.add(("ref", det, pos))
            else:
                for v in di.value:
                    if isinstance(v, SigmaString) and not isinstance(v, SigmaFieldReference):
                        s = v.to_plain()
                        if s.upper() == s and s.lower() != s:
                            marked.add(("value", det, pos))
    if marker == "suffix":
        for i, f in enumerate(rule.fields):
            if f.endswith("_M"):
                marked.add(("fieldslist", i))
    applied = "judged" in pipe.applied_ids
    return marked, applied, pd


def run_ref(pre, marker, groups):
    m = Model()
    for p in pre:
        m.pre(p)
    R = eval_group(groups[0], lambda n: m.rule_cond(RULE_POOL[n]))
    marked = set()
    if R:
        for it in m.items:
            D = eval_group(groups[1], lambda n: m.di_cond(DI_POOL[n], it))
            if not D:
                continue
            names = [it["field"]] + [v[1] for v in it["values"] if v[0] == "ref"]
            if marker == "suffix":
                if it["field"] is not None and eval_group(groups[2], lambda n: m.fn_cond(FN_POOL[n], it["field"])):
                    marked.add(("field", it["det"], it["pos"]))
                for v in it["values"]:
                    if v[0] == "ref" and eval_group(groups[2], lambda n: m.fn_cond(FN_POOL[n], v[1])):
                        marked.add(("ref", it["det"], it["pos"]))
            else:
                if any(v[0] == "str" for v in it["values"]):
                    # item-level meaning of 'applied' inside a detection item context: applied to this item
                    def leaf(n, it=it):
                        c = FN_POOL[n]
                        if c["type"] == "processing_item_applied":
                            return c["processing_item_id"] in it["applied"]
                        return any(m.fn_cond(c, nm) for nm in names)
                    if eval_group(groups[2], leaf):
                        marked.add(("value", it["det"], it["pos"]))
        if marker == "suffix":
            for i, f in enumerate(m.fields):
                if eval_group(groups[2], lambda n: m.fn_cond(FN_POOL[n], f)):
                    marked.add(("fieldslist", i))
    return marked, R


def _has_neg(g):
    if g is None:
        return False
    if g[0] == "list":
        return bool(g[3])
    return bool(g[2]) or "not" in repr(g[1])


def _names(g):
    if g is None:
        return []
    return list(g[1]) if g[0] == "list" else T.leaves_of(g[1])


def mech(groups, pre, marker, got, exp):
    """mechanism class of a disagreement"""
    diff = got ^ exp
    fn = groups[2]
    if fn is not None and "app_m0" in _names(fn) and "m0" in pre and marker == "suffix":
        return "field-applied-tracking-moved-by-fields-list-rename"
    if fn is not None and _has_neg(fn) and diff <= {("field", "sel", 2), ("ref", "sel", 2)}:
        return "field-name-negation-on-item-with-field-reference"
    for nm, g in zip(("rule", "detection_item", "field_name"), groups):
        if g is not None and g[0] == "list" and not g[1] and nm != "rule":
            return f"{nm}-empty-condition-list-never-applies"
    parts = []
    for nm, g in zip(("rule", "di", "fn"), groups):
        if g is not None:
            parts.append(f"{nm}:{g[0]}" + ("-neg" if _has_neg(g) else ""))
    return "unexplained:" + "+".join(parts) + ":" + ",".join(sorted({t[0] for t in diff}))


def judge(res, st, pre, marker, groups, prev=False, fresh=None):
    from sigma.exceptions import SigmaError

    case = {"prev_rule": prev, "pre": list(pre), "marker": marker, "groups": [g if g is None else [g[0], (list(g[1]) if g[0] == "list" else T.print_min(g[1])), *g[2:]] for g in groups]}
    res["evaluations"] += 1
    st.transition(len(pre) + 1)
    try:
        got, applied, pd = run_impl(pre, marker, groups, prev)
    except SigmaError as e:
        add_violation(res, f"sigma-error-on-valid-pipeline:{type(e).__name__}", case, "applies", str(e)[:200])
        return
    except Exception as e:
        add_violation(res, f"crash:{type(e).__name__}", case, "applies", repr(e)[:200])
        return
    if prev:  # differential oracle: a pipeline that processed another rule before behaves like a fresh one
        if fresh is None:
            fresh = run_impl(pre, marker, groups, False)
        st.state([pre, marker, sorted(got), "prev"])
        res["outcomes"].add(h64(sorted(got)))
        res["nontrivial"].add(h64(case))
        if (got, applied) != fresh[:2]:
            add_violation(res, "after-previous-rule:differs-from-fresh-pipeline", dict(case, _groups=repr(groups)), [sorted(fresh[0]), fresh[1]], [sorted(got), applied])
        return
    res["_last"] = (got, applied)
    exp, R = run_ref(pre, marker, groups)
    st.state([pre, marker, sorted(got)])
    res["outcomes"].add(h64(sorted(got)))
    if has_conditions(groups):
        res["nontrivial"].add(h64(case))
    if got != exp:
        add_violation(res, "marker-set-differs:" + mech(groups, pre, marker, got, exp), dict(case, _groups=repr(groups)), sorted(exp), sorted(got))
    elif applied != R:
        add_violation(res, "applied-flag-differs", dict(case, _groups=repr(groups)), R, applied)


# ------------------------------------------------------------------------------------------------ enumeration
def reduced(pool_true, pool_false):
    return [None, ("list", [pool_true], "and", False), ("list", [pool_false], "and", False), ("list", [pool_true], "and", True), ("list", [pool_false], "and", True)]


RED = {0: reduced("tag_t", "tag_f"), 1: reduced("wc", "mv_b"), 2: reduced("inc_f1g1", "inc_f3")}
POOLS = {0: RULE_POOL, 1: DI_POOL, 2: FN_POOL}
EXPR_IDS = {0: ["ls_win", "app_m0", "st_kv"], 1: ["ms_a", "app_m0", "st_kv"], 2: ["inc_f1g1", "exc_f1", "app_m0"]}


def sweep(scope, tier):
    """complete sweep of one group"""
    pool = list(POOLS[scope])
    yield ("list", [], "and", True)  # negation flag without conditions
    yield ("list", [], "or", False)
    for n in pool:
        for neg in (False, True):
            yield ("list", [n], "and", neg)
    for a, b in itertools.product(pool, repeat=2):
        if a < b:
            for linking in ("and", "or"):
                for neg in (False, True):
                    yield ("list", [a, b], linking, neg)
    for t in T.trees_upto(BOUNDS[tier]["expr_ops"], EXPR_IDS[scope]):
        if T.count_ops(t) >= 1:
            for neg in (False, True):
                yield ("expr", t, neg)


def pre_histories(tier):
    return list(E.histories(PRE_FULL, BOUNDS[tier]["pre"]))


PRES_SMALL = [(), ("ps",), ("cl",), ("m0",), ("m0", "ps"), ("cl", "m0"), ("p0",), ("p0", "ps")]


def space(tier):
    pres = pre_histories(tier)
    for scope in (0, 1, 2):
        others = [s for s in (0, 1, 2) if s != scope]
        for g in sweep(scope, tier):
            r1, r2 = RED[others[0]], RED[others[1]]
            combos = [(None, None), (r1[1], None), (r1[4], None), (None, r2[1]), (None, r2[4])]
            hs = pres if g[0] == "expr" and T.count_ops(g[1]) <= 2 else PRES_SMALL
            for o1, o2 in combos:
                groups = [None, None, None]
                groups[scope] = g
                groups[others[0]] = o1
                groups[others[1]] = o2
                for pre in hs:
                    for marker in ("suffix", "upper"):
                        yield pre, marker, tuple(groups)
    for gs in itertools.product(RED[0], RED[1], RED[2]):
        for pre in pres:
            for marker in ("suffix", "upper"):
                yield pre, marker, gs


def space_X(tier):
    """several condition groups of ONE item carry expressions with the same text (same identifiers c0, c1, ...) bound to
    different condition definitions per group"""
    ops = 1 if tier == "quick" else 2
    for shape in T.trees_upto(ops, [0, 1, 2]):
        if T.count_ops(shape) < 1:
            continue
        for scopes in ((0, 1), (0, 2), (1, 2), (0, 1, 2)):
            for negs in ((False,) * 3, (True, False, False), (False, False, True)):
                groups = [None, None, None]
                for sc in scopes:
                    names = sorted(EXPR_IDS[sc])
                    groups[sc] = ("expr", _map_leaves(shape, lambda i: names[i]), negs[sc])
                for pre in PRES_SMALL:
                    for marker in ("suffix", "upper"):
                        yield pre, marker, tuple(groups)


def _map_leaves(t, fn):
    if t[0] == "leaf":
        return ("leaf", fn(t[1]))
    return (t[0],) + tuple(_map_leaves(x, fn) for x in t[1:])


# ---- sub-space G: a preceding item that REPLACES a detection item by a group of new items (hashes_fields)
RULE_G = {"title": "g", "logsource": {"category": "process_creation", "product": "windows"},
          "detection": {"hs": {"Hashes|contains": ["MD5=0123456789abcdef0123456789abcdef", "SHA1=fedcba9876543210fedcba9876543210fedcba98"], "f1": "a*"}, "condition": "hs"}}
PRE_G = {"hf": {"id": "hf", "type": "hashes_fields", "valid_hash_algos": ["MD5", "SHA1"], "field_prefix": "File"}, "ps": PRE["ps"]}
DI_POOL_G = {"app_hf": {"type": "processing_item_applied", "processing_item_id": "hf"}, "ms_a": DI_POOL["ms_a"], "st_kv": DI_POOL["st_kv"]}
RULE_POOL_G = {"app_hf": {"type": "processing_item_applied", "processing_item_id": "hf"}}
FN_POOL_G = {"inc": {"type": "include_fields", "fields": ["FileMD5", "Hashes", "f1"]}}


def space_G(tier):
    dig = [None, ("list", [], "and", True)]
    for n in DI_POOL_G:
        for neg in (False, True):
            dig.append(("list", [n], "and", neg))
    for a, b in itertools.combinations(sorted(DI_POOL_G), 2):
        for linking in ("and", "or"):
            for neg in (False, True):
                dig.append(("list", [a, b], linking, neg))
    for t in T.trees_upto(2 if tier == "quick" else 3, sorted(DI_POOL_G)):
        if T.count_ops(t) >= 1:
            dig.append(("expr", t, False))
    rg = [None, ("list", ["app_hf"], "and", False), ("list", ["app_hf"], "and", True)]
    fg = [None, ("list", ["inc"], "and", False), ("list", ["inc"], "and", True)]  # 'applied' as a field-name condition on fields created by the group is not defined by the statement: not swept
    for pre in ((), ("hf",), ("ps", "hf"), ("hf", "ps")):
        for d in dig:
            for r in rg:
                for f in fg:
                    yield pre, "suffix", (r, d, f)


def judge_G(res, st, pre, groups):
    from sigma.exceptions import SigmaError
    from sigma.processing.pipeline import ProcessingPipeline
    from sigma.rule import SigmaRule
    from sigma.rule.detection import SigmaDetection

    case = {"sub": "G", "pre": list(pre), "groups": repr(groups)}
    res["evaluations"] += 1
    st.transition(len(pre) + 1)
    item = {"id": "judged", "type": "field_name_suffix", "suffix": "_M"}
    item.update(group_yaml("rule", groups[0], RULE_POOL_G))
    item.update(group_yaml("detection_item", groups[1], DI_POOL_G))
    item.update(group_yaml("field_name", groups[2], FN_POOL_G))
    pd = {"name": "c13g", "priority": 1, "transformations": [copy.deepcopy(PRE_G[p]) for p in pre] + [item]}
    try:
        pipe = ProcessingPipeline.from_dict(pd)
        rule = SigmaRule.from_dict(copy.deepcopy(RULE_G))
        pipe.apply(rule)
    except SigmaError as e:
        add_violation(res, f"G:sigma-error-on-valid-pipeline:{type(e).__name__}", case, "applies", str(e)[:200])
        return
    except Exception as e:
        add_violation(res, f"G:crash:{type(e).__name__}", case, "applies", repr(e)[:200])
        return
    got = set()

    def walk(d):
        for di in d.detection_items:
            if isinstance(di, SigmaDetection):
                walk(di)
            elif di.field is not None and di.field.endswith("_M"):
                got.add(di.field[:-2])

    walk(rule.detection.detections["hs"])
    # reference: the items present after the preceding items, and what was applied to each of them
    hf = "hf" in pre
    state = {"k": "v"} if "ps" in pre else {}
    items = ([("FileMD5", {"hf"}, False), ("FileSHA1", {"hf"}, False)] if hf else [("Hashes", set(), False)]) + [("f1", set(), True)]

    def st_ok():
        return state.get("k") == "v"

    exp = set()
    if eval_group(groups[0], lambda n: hf):
        for fld, applied, starts_a in items:
            dleaf = lambda n: {"app_hf": "hf" in applied, "ms_a": starts_a, "st_kv": st_ok()}[n]
            fleaf = lambda n: {"inc": fld in ("FileMD5", "Hashes", "f1")}[n]
            if eval_group(groups[1], dleaf) and eval_group(groups[2], fleaf):
                exp.add(fld)
    st.state(["G", list(pre), sorted(got)])
    res["outcomes"].add(h64(["G", sorted(got)]))
    res["nontrivial"].add(h64(case))
    if got != exp:
        add_violation(res, "G:marker-set-differs-after-item-replaced-by-group:" + ("with-hf" if hf else "without-hf"), case, sorted(exp), sorted(got))


# ---- sub-space K: rule conditions evaluated on correlation rules (log source = that of any transitively referenced rule)
def _k_docs():
    def r(n, product):
        return {"title": f"r{n}", "name": f"r{n}", "logsource": {"category": "process_creation", "product": product}, "detection": {"sel": {"f": n}, "condition": "sel"}}

    def c(n, refs):
        return {"title": f"c{n}", "name": f"c{n}", "correlation": {"type": "event_count", "rules": refs, "timespan": "5m", "group-by": ["user"], "condition": {"gte": 1}}}

    # c1 -> r1(windows); c2 -> c1; c3 -> r2(linux); c4 -> c3, c2; c5 -> c2 (chain of depth 3)
    return [r(1, "windows"), r(2, "linux"), c(1, ["r1"]), c(2, ["c1"]), c(3, ["r2"]), c(4, ["c3", "c2"]), c(5, ["c2"])]


K_PRODUCTS = {"r1": {"windows"}, "r2": {"linux"}, "c1": {"windows"}, "c2": {"windows"}, "c3": {"linux"}, "c4": {"windows", "linux"}, "c5": {"windows"}}
K_POOL = {"ls_win": RULE_POOL["ls_win"], "ls_lin": RULE_POOL["ls_lin"], "is_rule": RULE_POOL["is_rule"], "is_corr": RULE_POOL["is_corr"]}


def space_K(tier):
    yield None
    for n in K_POOL:
        for neg in (False, True):
            yield ("list", [n], "and", neg)
    for a, b in itertools.combinations(sorted(K_POOL), 2):
        for linking in ("and", "or"):
            for neg in (False, True):
                yield ("list", [a, b], linking, neg)
    for t in T.trees_upto(2, sorted(K_POOL)[:3]):
        if T.count_ops(t) >= 1:
            yield ("expr", t, False)


def judge_K(res, st, group, order):
    from sigma.collection import SigmaCollection
    from sigma.processing.pipeline import ProcessingPipeline

    case = {"sub": "K", "group": repr(group), "order": order}
    res["evaluations"] += 1
    st.transition(1)
    item = {"id": "judged", "type": "set_custom_attribute", "attribute": "marked", "value": "yes"}
    item.update(group_yaml("rule", group, K_POOL))
    docs = _k_docs()
    if order == "reversed":
        docs = docs[::-1]
    try:
        coll = SigmaCollection.from_dicts(copy.deepcopy(docs))
        pipe = ProcessingPipeline.from_dict({"name": "c13k", "priority": 1, "transformations": [item]})
        got = set()
        for rule in coll.rules:
            pipe.apply(rule)
            if rule.custom_attributes.get("marked") == "yes":
                got.add(rule.title)
    except Exception as e:
        add_violation(res, f"K:exception:{type(e).__name__}", case, "applies", repr(e)[:200])
        return

    def leaf(title):
        return lambda n: {"ls_win": "windows" in K_PRODUCTS[title], "ls_lin": "linux" in K_PRODUCTS[title], "is_rule": title.startswith("r"), "is_corr": title.startswith("c")}[n]

    exp = {t for t in K_PRODUCTS if eval_group(group, leaf(t))}
    st.state(["K", sorted(got)])
    res["outcomes"].add(h64(["K", sorted(got)]))
    if group is not None:
        res["nontrivial"].add(h64(case))
    if got != exp:
        add_violation(res, "K:rule-condition-on-correlation-rules:marker-set-differs", case, sorted(exp), sorted(got))


NSH = 64


def plan(tier, seed):
    return [("G", i) for i in range(4)] + [("X", i) for i in range(8)] + [("K", 0)] + list(range(NSH))


def run_shard(shard, tier, seed):
    res = new_result()
    st = E.Stats(res)
    if isinstance(shard, (tuple, list)) and shard[0] == "G":
        for idx, (pre, marker, groups) in enumerate(space_G(tier)):
            if idx % 4 == shard[1]:
                st.history()
                judge_G(res, st, pre, groups)
        return res
    if isinstance(shard, (tuple, list)) and shard[0] == "K":
        for group in space_K(tier):
            for order in ("given", "reversed"):
                st.history()
                judge_K(res, st, group, order)
        return res
    if isinstance(shard, (tuple, list)) and shard[0] == "X":
        for idx, (pre, marker, groups) in enumerate(space_X(tier)):
            if idx % 8 == shard[1]:
                st.history()
                judge(res, st, pre, marker, groups)
        res.pop("_last", None)
        return res
    for idx, (pre, marker, groups) in enumerate(space(tier)):
        if idx % NSH != shard:
            continue
        st.history()
        res.pop("_last", None)
        judge(res, st, pre, marker, groups)
        if any(g is not None and any(n in ("app_m0", "app_ps", "st_kv", "st_ne") for n in _names(g)) for g in groups) and len(pre) <= 1:
            st.history()
            judge(res, st, pre, marker, groups, prev=True, fresh=res.get("_last"))  # same pipeline object after another rule
        if len(res["samples"]) < 2 and groups[2] is not None and groups[2][0] == "expr":
            res["samples"].append({"pre": list(pre), "marker": marker, "field_name_group": T.print_min(groups[2][1])})
    res.pop("_last", None)
    return res


def replay(case):
    res = new_result()
    st = E.Stats(res)
    if case.get("sub") == "K":
        judge_K(res, st, eval(case["group"]), case["order"])
        return res["violations"]
    if case.get("sub") == "G":
        judge_G(res, st, tuple(case["pre"]), eval(case["groups"]))
        return res["violations"]
    groups = eval(case["_groups"])  # repr of plain tuples/lists/strings written by this module
    judge(res, st, tuple(case["pre"]), case["marker"], groups, case.get("prev_rule", False))
    return res["violations"]
