"""C10 - correlation queries carry every element of the correlation rule faithfully."""
import copy
import itertools

from mc import formula as F
from mc import qparse as Q
from mc import trees as T
from mc import vbackend as V
from mc import vcorr
from mc.runner import add_violation, h64, new_result

PROPERTY = "C10"
LEVEL = "exploration"
RULE = (
    "three completely enumerated sub-products: (i) 8 correlation types x 6 operators x 7 timespan units x counts {1,5,90} x "
    "timespan modes {passthrough, unit mapping, seconds}; (ii) types x referenced-rule shapes (1-4 rules: single / two "
    "conditions / nested correlation, by name or id) x group-by {none,1,2} x aliases x generate x backend options {typing, "
    "single-rule template, sub-query finalisation} x pipelines {none, field mapping renaming rule fields, group-by, alias "
    "targets and condition field, prefix mapping, post-processing}; (iii) every extended condition tree up to the operator "
    "bound over 2-3 rule names x 6 precedence orders x parenthesize x token styles. The delimiter-structured output is "
    "parsed back into fields (mc/vcorr) and compared with the reference record built from the source documents; extended "
    "conditions by truth table. non-trivial = every case (each has >= 1 sub-query and an aggregation); distinct by (documents, configuration)."
)
RULE += (" " + 'Sub-space (iv): a correlation rule object that was resolved and converted in one collection is placed into a second collection whose referenced rules have other content; the result must equal a fresh load of that collection. Field mappings are also bound to a log-source rule condition and applied to chains of correlation rules; boundary percentiles and counts (0, 100) are included. Sub-space (v): ONE backend instance converts in turn collections whose correlation rule differs only in the spelling of the timespan (18 spellings incl. all pairs equal in seconds, both orders) for every type and timespan mode; each query must carry its own timespan.')
ASSUMPTIONS = ["stand-alone conversion of a referenced rule (same pipeline, fresh objects) is the reference for its sub-query text (its meaning is C01's subject)",
               "timespan unit lengths: s=1 m=60 h=3600 d=86400 w=604800 M=2629746 y=31556952 seconds"]
TYPES = ["event_count", "value_count", "temporal", "temporal_ordered", "value_sum", "value_avg", "value_percentile", "value_median"]
OPS = {"lt": "<", "lte": "<=", "gt": ">", "gte": ">=", "eq": "==", "neq": "!="}
UNITS = {"s": 1, "m": 60, "h": 3600, "d": 86400, "w": 604800, "M": 2629746, "y": 31556952}
UNITMAP = {"s": "sec", "m": "min", "h": "hrs", "d": "days", "w": "wks", "M": "mon", "y": "yrs"}
BOUNDS = {"quick": dict(xops=2), "thorough": dict(xops=3)}
PRECS = list(itertools.permutations(("NOT", "AND", "OR")))


def bounds(tier):
    return dict(BOUNDS[tier], types=TYPES, operators=list(OPS), units=list(UNITS), counts=[1, 5, 90])


def rid(n):
    return f"00000000-0000-4000-8000-{n:012d}"


def plain(n, two=False, name=True, fields=None):
    d = {"title": f"r{n}", "id": rid(n), "logsource": {"category": "c"},
         "detection": {"sel": {"user": f"u{n}", f"f{n}": "v"}, "condition": "sel"}}
    if two:
        d["detection"] = {"sel": {"user": f"u{n}"}, "sel2": {f"f{n}": "w"}, "condition": ["sel", "sel2 and not sel"]}
    if name:
        d["name"] = f"rule{n}"
    if fields:
        d["fields"] = fields
    return d


def needs_field(t):
    return t.startswith("value_")


def corr_doc(ctype, refs, op="gte", count=2, timespan="5m", group_by=("user",), aliases=None, generate=None, xcond=None, field="user", percentile=None, fields=None):
    c = {"type": ctype, "rules": list(refs), "timespan": timespan}
    if group_by:
        c["group-by"] = list(group_by)
    if xcond is not None:
        c["condition"] = xcond
    else:
        cond = {op: count}
        if needs_field(ctype):
            cond["field"] = field
        if ctype == "value_percentile":
            cond["percentile"] = 95 if percentile is None else percentile
        c["condition"] = cond
    if aliases:
        c["aliases"] = aliases
    if generate is not None:
        c["generate"] = generate
    d = {"title": "corr", "id": rid(900), "name": "corr_rule", "correlation": c}
    if fields:
        d["fields"] = fields
    return d


PIPES = {
    "none": None,
    "map": {"name": "map", "priority": 1, "transformations": [{"id": "m", "type": "field_name_mapping", "mapping": {"user": "usr", "host": "hst", "u1": "user_one", "f1": "g1", "bytes": "byt"}}]},
    # the same mapping bound to the log source of the referenced rules: applies to a correlation rule iff a (transitively) referenced rule matches
    "map_ls": {"name": "mapls", "priority": 1, "transformations": [{"id": "m", "type": "field_name_mapping", "mapping": {"user": "usr", "host": "hst", "u1": "user_one", "f1": "g1", "bytes": "byt"},
                                                                     "rule_conditions": [{"type": "logsource", "category": "c"}]}]},
    "prefix": {"name": "pre", "priority": 1, "transformations": [{"id": "p", "type": "field_name_prefix", "prefix": "ev."}]},
    "post": {"name": "post", "priority": 1, "postprocessing": [{"id": "emb", "type": "embed", "prefix": "<<", "suffix": ">>"}]},
}


def map_field(pipe, f):
    if pipe in ("map", "map_ls"):
        return {"user": "usr", "host": "hst", "u1": "user_one", "f1": "g1", "bytes": "byt"}.get(f, f)
    if pipe == "prefix":
        return "ev." + f
    return f


def qf(f):
    return "`" + f.replace("\\", "\\\\").replace("`", "\\`") + "`"


def mk_pipeline(pipe):
    from sigma.processing.pipeline import ProcessingPipeline

    return ProcessingPipeline.from_dict(copy.deepcopy(PIPES[pipe])) if PIPES[pipe] else None


def standalone(doc, k, pipe, finalized):
    """sub-queries of a referenced plain rule: stand-alone conversion with the same pipeline on fresh objects"""
    from sigma.rule import SigmaRule

    kk = dict(k)
    b = V.make_backend_class(kk)(mk_pipeline(pipe))
    if finalized or pipe != "post":
        return b.convert_rule(SigmaRule.from_dict(copy.deepcopy(doc)))
    # not finalised: the same conversion without the post-processing stage
    b2 = V.make_backend_class(kk)(None)
    return b2.convert_rule(SigmaRule.from_dict(copy.deepcopy(doc)))


def convert_all(docs, k, pipe):
    from sigma.collection import SigmaCollection

    cls = V.make_backend_class(k)
    b = cls(mk_pipeline(pipe))
    coll = SigmaCollection.from_dicts(copy.deepcopy(docs))
    per = {}

    def cb(rule, fmt, index, cond, result):
        return result

    out = b.convert(coll)
    return out


def timespan_ref(spec, mode):
    cnt, unit = int(spec[:-1]), spec[-1]
    if mode == "seconds":
        return str(cnt * UNITS[unit])
    if mode == "mapping":
        return str(cnt) + UNITMAP[unit]
    return spec


def judge(res, sub, docs, cdoc, k, pipe, label, tree=None):
    from sigma.exceptions import SigmaError

    c = cdoc["correlation"]
    opts = k["correlation"]
    case = {"sub": sub, "documents": docs + [cdoc], "correlation_options": opts, "pipeline": pipe, "k": {a: (sorted(b) if isinstance(b, frozenset) else b) for a, b in k.items() if a in ("precedence", "parenthesize", "tokens")}, "label": label}
    res["evaluations"] += 1
    res["nontrivial"].add(h64(case))
    try:
        out = convert_all(docs + [cdoc], k, pipe)
    except (SigmaError, NotImplementedError) as e:
        add_violation(res, f"{sub}:unexpected-exception:{type(e).__name__}", case, "query", str(e)[:200])
        return
    except Exception as e:
        add_violation(res, f"{sub}:crash:{type(e).__name__}", case, "query", repr(e)[:200])
        return
    corr_qs = [q for q in out if isinstance(q, str) and "SEARCH" + vcorr.L in q]
    if len(corr_qs) != 1:
        add_violation(res, f"{sub}:correlation-query-count", case, 1, out)
        return
    q = corr_qs[0]
    if pipe == "post":
        if not (q.startswith("<<") and q.endswith(">>")):
            add_violation(res, f"{sub}:correlation-query-not-postprocessed", case, "<<...>>", q[:100])
            return
        q = q[2:-2]
    try:
        rec = vcorr.parse(q)
    except vcorr.CorrParseError as e:
        add_violation(res, f"{sub}:query-not-in-template-grammar", case, "parsable", {"query": q[:300], "error": str(e)})
        return
    res["outcomes"].add(h64([rec["type"], len(rec["search"])]))
    byref = {}
    for d in docs:
        byref[d.get("name")] = d
        byref[d["id"]] = d
    refs = c["rules"]
    finalized = bool(opts.get("finalize_subqueries"))
    exp_search = []
    aliases = c.get("aliases") or {}
    for r in refs:
        d = byref[r]
        ruleid = d.get("name") or d["id"]
        if "correlation" in d:
            continue  # nested correlation: handled below by position
        norm = ",".join(f"{a}={map_field(pipe, m[r])}" for a, m in aliases.items() if r in m)
        for sq in standalone(d, k, pipe, finalized):
            exp_search.append((ruleid, sq, norm))
    got_search = [s for s in rec["search"]]
    nested = [byref[r] for r in refs if "correlation" in byref[r]]
    if nested:
        # nested correlation sub-queries: compare the plain-rule entries and require one entry per nested correlation tagged with its id
        got_plain = [s for s in got_search if ("SEARCH" + vcorr.L) not in s[1]]
        got_nested = [s for s in got_search if ("SEARCH" + vcorr.L) in s[1]]
        if [g[0] for g in got_nested] != [d.get("name") or d["id"] for d in nested]:
            add_violation(res, f"{sub}:nested-correlation-subquery-missing-or-mistagged", case, [d.get("name") for d in nested], [g[0] for g in got_nested])
        got_search = got_plain
    single = bool(rec.get("single"))
    if single:
        if len(exp_search) != 1:
            add_violation(res, f"{sub}:single-rule-template-used-for-several-queries", case, len(exp_search), rec["search"])
        elif (got_search[0][1], got_search[0][2]) != (exp_search[0][1], exp_search[0][2]):
            add_violation(res, f"{sub}:search-subquery-differs:single", case, exp_search, got_search)
    elif got_search != exp_search:
        which = "order-or-count" if sorted(got_search) == sorted(exp_search) or len(got_search) != len(exp_search) else ("tag" if [g[1:] for g in got_search] == [e[1:] for e in exp_search] else ("normalization" if [g[:2] for g in got_search] == [e[:2] for e in exp_search] else "query"))
        add_violation(res, f"{sub}:search-subquery-differs:{which}", case, exp_search, got_search)
    if opts.get("typing", True):
        exp_typing = [(e[0], e[1]) for e in exp_search]
        got_typing = [t for t in rec["typing"] if ("SEARCH" + vcorr.L) not in t[1]]
        if got_typing != exp_typing:
            add_violation(res, f"{sub}:typing-differs", case, exp_typing, got_typing)
    elif rec["typing"]:
        add_violation(res, f"{sub}:typing-emitted-without-template", case, [], rec["typing"])
    xc = isinstance(c.get("condition"), str)
    exp_type = c["type"] + ("_extended" if xc else "")
    if rec["type"] != exp_type:
        add_violation(res, f"{sub}:type-differs", case, exp_type, rec["type"])
    ts = timespan_ref(c["timespan"], opts.get("timespan", "passthrough"))
    if rec["timespan"] != ts:
        add_violation(res, f"{sub}:timespan-differs:{opts.get('timespan', 'passthrough')}", case, ts, rec["timespan"])
    gb = c.get("group-by")
    exp_gb = "G" + vcorr.L + (",".join(qf(f if f in aliases else map_field(pipe, f)) for f in gb) if gb else "") + vcorr.Rr
    if rec["groupby"] != exp_gb:
        add_violation(res, f"{sub}:groupby-differs:{pipe}", case, exp_gb, rec["groupby"])
    exp_refs = ",".join((byref[r].get("name") or byref[r]["id"]) for r in refs)
    if rec["agg_refs"] != exp_refs or rec["cond_refs"] != exp_refs:
        add_violation(res, f"{sub}:referenced-rules-differ", case, exp_refs, [rec["agg_refs"], rec["cond_refs"]])
    if xc:
        # extended condition: truth-table comparison over rule reference atoms
        kq = dict(k)
        txt = rec["xcond"]
        import re as _re

        conv = _re.sub("REF" + vcorr.L + "([^" + vcorr.Rr + "]*)" + vcorr.Rr, lambda m: "`" + m.group(1) + '`="1"', txt)
        try:
            got = Q.qparse(conv, kq)
        except Q.QParseError as e:
            add_violation(res, f"{sub}:extended-condition-not-in-grammar", case, c["condition"], {"text": txt, "error": str(e)[:150]})
            return
        ref = _tree_formula(tree, byref)
        eq, cex = F.equivalent(ref, got)
        if not eq:
            add_violation(res, f"{sub}:extended-condition-not-equivalent", case, c["condition"], {"text": txt, "cex": cex})
    else:
        cond = c["condition"]
        op = next(o for o in OPS if o in cond)
        fld = cond.get("field")
        exp_field = "None" if fld is None else (str([map_field(pipe, x) for x in fld]) if isinstance(fld, list) else map_field(pipe, fld))
        exp = (OPS[op], str(cond[op]), exp_field)
        got = (rec["op"], rec["count"], rec["cond_field"])
        if got != exp:
            which = "operator" if got[0] != exp[0] else "count" if got[1] != exp[1] else "field"
            add_violation(res, f"{sub}:condition-differs:{which}:{pipe}", case, exp, got)
        if rec["field"] != exp_field and not (fld is None and rec["field"] in ("None", "")):
            add_violation(res, f"{sub}:aggregation-field-differs:{pipe}", case, exp_field, rec["field"])
        exp_pct = str(cond["percentile"]) if "percentile" in cond else ""
        if rec["percentile"] != exp_pct:
            add_violation(res, f"{sub}:percentile-differs", case, exp_pct, rec["percentile"])


def _tree_formula(t, byref):
    if t[0] == "leaf":
        d = byref[t[1]]
        return F.a_str(d.get("name") or d["id"], False, ("1",))
    if t[0] == "not":
        return F.NOT(_tree_formula(t[1], byref))
    return (t[0], (_tree_formula(t[1], byref), _tree_formula(t[2], byref)))


def Kc(**opts):
    base = {k: v for k, v in opts.items() if k in ("precedence", "parenthesize", "tokens")}
    copts = {k: v for k, v in opts.items() if k not in base}
    return V.K(correlation=copts or {"typing": True}, **base)


def space_i():
    docs = [plain(1), plain(2)]
    for t in TYPES:
        for op in OPS:
            for unit in UNITS:
                for cnt in (1, 5, 90):
                    for mode in ("passthrough", "mapping", "seconds"):
                        yield docs, corr_doc(t, ["rule1", "rule2"], op=op, count=cnt, timespan=f"{cnt}{unit}"), Kc(typing=True, timespan=mode), "none", f"{t}/{op}/{cnt}{unit}/{mode}"
    # boundary values of the numeric elements
    for op in OPS:
        for pct in (0, 1, 50, 100):
            yield docs, corr_doc("value_percentile", ["rule1", "rule2"], op=op, count=0, percentile=pct), Kc(typing=True), "none", f"value_percentile/{op}/pct{pct}/count0"
        for t in TYPES:
            if t not in ("temporal", "temporal_ordered"):
                yield docs, corr_doc(t, ["rule1", "rule2"], op=op, count=0), Kc(typing=True), "none", f"{t}/{op}/count0"


REFSETS = [
    ("one", [plain(1)], ["rule1"]),
    ("one-by-id", [plain(1, name=False)], [rid(1)]),
    ("two", [plain(1), plain(2)], ["rule1", "rule2"]),
    ("two-rev", [plain(1), plain(2)], ["rule2", "rule1"]),
    ("by-id-with-name", [plain(1), plain(2)], [rid(1), "rule2"]),
    ("multi-cond-by-id-with-name", [plain(1, two=True)], [rid(1)]),
    ("multi-cond", [plain(1, two=True), plain(2)], ["rule1", "rule2"]),
    ("three-mixed", [plain(1), plain(2, two=True), plain(3, name=False)], ["rule2", rid(3), "rule1"]),
    ("four", [plain(1), plain(2), plain(3), plain(4, two=True)], ["rule1", "rule2", "rule3", "rule4"]),
]


def space_ii():
    for t in TYPES:
        for rname, docs, refs in REFSETS:
            for gb in ((), ("user",), ("user", "host")):
                for al in (None, "alias"):
                    aliases = None
                    gbx = gb
                    if al and len(refs) >= 2:
                        aliases = {"acct": {refs[0]: "u1", refs[1]: "user"}}
                        gbx = tuple(gb) + ("acct",)
                    elif al:
                        continue
                    for gen in (None, True):
                        for copts in ({"typing": True}, {"typing": False}, {"typing": True, "single": True}, {"typing": True, "finalize_subqueries": True}):
                            for pipe in PIPES:
                                if pipe == "post" and not (copts.get("finalize_subqueries") or copts == {"typing": True}):
                                    continue
                                yield docs, corr_doc(t, refs, group_by=gbx, aliases=aliases, generate=gen, field="bytes"), Kc(**copts), pipe, f"{t}/{rname}/gb{len(gb)}/{al}/{gen}/{sorted(copts)}/{pipe}"
    # nested correlation as referenced rule
    inner = corr_doc("event_count", ["rule1"])
    inner.update(title="inner", id=rid(901), name="inner_corr")
    inner2 = corr_doc("event_count", ["rule2"])
    inner2.update(title="inner2", id=rid(902), name="inner_corr2")
    for t in ("temporal", "event_count", "value_count"):
        for pipe in ("none", "map", "map_ls", "prefix"):
            yield [plain(1), plain(2), inner], corr_doc(t, ["inner_corr", "rule2"], group_by=("user", "host")), Kc(typing=True), pipe, f"nested/{t}/{pipe}"
            # chain: the outer rule references correlation rules only
            yield [plain(1), plain(2), inner, inner2], corr_doc(t, ["inner_corr", "inner_corr2"], group_by=("user", "host"), field="bytes"), Kc(typing=True), pipe, f"chain/{t}/{pipe}"


def space_iii(tier):
    names = ["rule1", "rule2", "rule3"]
    docs = [plain(1), plain(2), plain(3)]
    for t in T.trees_upto(BOUNDS[tier]["xops"], names):
        used = sorted(set(T.leaves_of(t)))
        if len(used) < 2:
            continue
        text = T.print_min(t)
        for ctype in ("temporal", "temporal_ordered"):
            for p in PRECS:
                for par in (False, True):
                    for tok in ("words", "symbols"):
                        cd = corr_doc(ctype, used, xcond=text)
                        yield [d for d in docs if d["name"] in used] + [d for d in docs if d["name"] not in used], cd, Kc(typing=True, precedence=p, parenthesize=par, tokens=tok), "none", (f"x/{ctype}/{text}", t)


NSH = 32


def judge_reuse(res, ctype, refs, changed, two):
    """(iv) a correlation rule object that was already resolved and converted in one collection is put into a second collection
    in which a referenced rule has other content: the query must embed the sub-queries of the rules of THAT collection"""
    from sigma.collection import SigmaCollection
    from sigma.correlations import SigmaCorrelationRule
    from sigma.rule import SigmaRule

    def pl(n, v):
        d = plain(n, two=two)
        d["detection"]["sel"]["user"] = v
        return d

    k = Kc(typing=True)
    cdoc = corr_doc(ctype, refs)
    v1 = [pl(n, f"old{n}") for n in (1, 2)]
    v2 = [pl(n, (f"new{n}" if n in changed else f"old{n}")) for n in (1, 2)]
    case = {"sub": "iv", "type": ctype, "refs": refs, "changed": list(changed), "two_conditions": two}
    res["evaluations"] += 1
    try:
        cobj = SigmaCorrelationRule.from_dict(copy.deepcopy(cdoc))
        first = V.make_backend_class(k)().convert(SigmaCollection([SigmaRule.from_dict(copy.deepcopy(d)) for d in v1] + [cobj]))
        second = V.make_backend_class(k)().convert(SigmaCollection([SigmaRule.from_dict(copy.deepcopy(d)) for d in v2] + [cobj]))
        fresh = V.make_backend_class(k)().convert(SigmaCollection.from_dicts(copy.deepcopy(v2) + [copy.deepcopy(cdoc)]))
    except Exception as e:
        add_violation(res, f"iv:exception:{type(e).__name__}", case, "queries", repr(e)[:200])
        return
    res["nontrivial"].add(h64(case))
    res["outcomes"].add(h64(second))
    if second != fresh:
        add_violation(res, "iv:reused-correlation-rule-embeds-rules-of-an-earlier-collection", case, fresh, second)


SPELLINGS = ["60s", "1m", "120m", "2h", "3600s", "60m", "1h", "24h", "1d", "1440m", "7d", "1w", "168h", "5m", "300s", "90s", "90m", "90d"]


def judge_one_backend(res, ctype, mode, order):
    """sub-space v: ONE backend instance converts, in turn, collections whose correlation rule differs only in how the timespan is written
    (spellings that are equal in seconds follow each other in both orders); each query must carry its own rule's timespan"""
    from sigma.collection import SigmaCollection

    k = Kc(typing=True, timespan=mode)
    b = V.make_backend_class(k)(mk_pipeline("none"))
    seq = SPELLINGS if order == "fwd" else list(reversed(SPELLINGS))
    for pos, spec in enumerate(seq):
        case = {"sub": "v", "type": ctype, "mode": mode, "order": order, "upto": pos}
        res["evaluations"] += 1
        res["nontrivial"].add(h64([ctype, mode, order, pos]))
        cdoc = corr_doc(ctype, ["rule1", "rule2"], timespan=spec)
        try:
            out = b.convert(SigmaCollection.from_dicts(copy.deepcopy([plain(1), plain(2), cdoc])))
            q = [x for x in out if isinstance(x, str) and "SEARCH" + vcorr.L in x][0]
            got = vcorr.parse(q)["timespan"]
        except Exception as e:
            add_violation(res, f"v:crash:{type(e).__name__}", case, "query", repr(e)[:200])
            return
        res["outcomes"].add(h64([mode, got]))
        if got != timespan_ref(spec, mode):
            add_violation(res, f"v:timespan-of-an-earlier-conversion-on-the-same-backend:{mode}", case, timespan_ref(spec, mode), got)
            return


def plan(tier, seed):
    return [(s, i) for s in ("i", "ii", "iii") for i in range(NSH)] + [("iv", 0), ("v", 0)]


def run_shard(shard, tier, seed):
    res = new_result()
    sub, idx = shard
    if sub == "iv":
        for t in TYPES:
            for refs in (["rule1"], ["rule1", "rule2"], [rid(1), "rule2"]):
                for changed in ((1,), (2,), (1, 2)):
                    for two in (False, True):
                        judge_reuse(res, t, refs, changed, two)
        return res
    if sub == "v":
        for t in TYPES:
            for mode in ("passthrough", "mapping", "seconds"):
                for order in ("fwd", "rev"):
                    judge_one_backend(res, t, mode, order)
        return res
    sp = {"i": space_i, "ii": space_ii, "iii": lambda: space_iii(tier)}[sub]()
    for n, (docs, cdoc, k, pipe, label) in enumerate(sp):
        if n % NSH != idx:
            continue
        tree = None
        if isinstance(label, tuple):
            label, tree = label
        judge(res, sub, docs, copy.deepcopy(cdoc), k, pipe, label, tree)
        if len(res["samples"]) < 1:
            res["samples"].append({"sub": sub, "label": label, "correlation": cdoc["correlation"]})
    return res


def replay(case):
    res = new_result()
    if case.get("sub") == "iv":
        judge_reuse(res, case["type"], case["refs"], tuple(case["changed"]), case["two_conditions"])
        return res["violations"]
    if case.get("sub") == "v":
        judge_one_backend(res, case["type"], case["mode"], case["order"])
        return res["violations"]
    docs = case["documents"][:-1]
    cdoc = case["documents"][-1]
    k = V.K(correlation=case["correlation_options"], **{a: (tuple(b) if a == "precedence" else b) for a, b in case["k"].items()})
    tree = None
    c = cdoc["correlation"]
    if isinstance(c.get("condition"), str):
        for t in T.trees_upto(3, ["rule1", "rule2", "rule3"]):
            if T.print_min(t) == c["condition"]:
                tree = t
                break
    judge(res, case["sub"], docs, cdoc, k, case["pipeline"], case.get("label"), tree)
    return res["violations"]
