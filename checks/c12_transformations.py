"""C12 - each pipeline transformation equals its documented source-level rewrite."""
import copy
import itertools
import re

from mc import formula as F
from mc import qparse as Q
from mc import refrule as RR
from mc import refsigma as R
from mc import vbackend as V
from mc.runner import add_violation, h64, new_result

PROPERTY = "C12"
LEVEL = "exploration"
RULE = (
    "every transformation variant of the catalogue (field mapping 1:1 / 1:n / keyword-to-field / unmapped, prefix mapping, "
    "prefix, suffix, drop, add_condition +-negated +-template, replace_string matching / non-matching / skip_special / "
    "interpret_special, map_string 1:1 / 1:n / miss, set_value of four types, convert_type, case, hashes_fields, wildcard and "
    "value placeholders, nest, change_logsource, set_state, add/remove/set_field, set_custom_attribute) x every scope {none, "
    "field-name condition, detection-item condition, rule condition true/false} x every rule of the rule catalogue (and every "
    "ordered pair of field/value transformations in the thorough tier) is applied through a real pipeline; the decoded query "
    "must be truth-table equivalent to the reference formula obtained by rewriting the reference model of the rule as the "
    "transformation is documented (rule attributes are compared directly); identity instances must leave every query "
    "byte-identical. non-trivial = case in which the transformation changes the reference formula or attributes."
)
RULE += (" " + 'Every case is repeated on a backend/pipeline that converted another rule (other log source) before, and once more after the same rule (differential: same queries and rule attributes as the fresh conversion). add_condition is chained with every field/value transformation (the added condition is a detection of the rule for later items).')
RULE += " Thorough tier only: every ordered triple of distinct field / value / item rewrites of the catalogue (whole-rule scope) over 7 rules."
ASSUMPTIONS = ["reference rewrite of each transformation in this module (item-level model, independent of sigma)", "decoder mc/qparse.py, backend K0",
               "regex transformation and external placeholder sources are judged by C05 / C16, here only their identity instances"]
K = V.K()
BOUNDS = {"quick": dict(chains=True, chain_scopes=False, triples=False), "thorough": dict(chains=True, chain_scopes=True, triples=True)}

RULES = {
    "single": {"sel": {"f1": "v1"}},
    "multi": {"sel": {"f1": ["v1", "v2"], "f2": 5}},
    "all": {"sel": {"f1|contains|all": ["v1", "b"]}},
    "keywords": {"sel": ["v1", "k2"]},
    "fieldref": {"sel": {"f3|fieldref": "f1", "f1": "v1"}},
    "neq": {"sel": {"f1|neq": "v1", "f2": "x"}},
    "listmaps": {"sel": [{"f1": "v1"}, {"f2": "v2", "f1": "Va"}]},
    "wild": {"sel": {"f1": "v1*", "f2|endswith": "x"}},
    "cased": {"sel": {"f1|cased": "Va", "f2": ["Va", "x"]}},
    "two-dets": {"sel": {"f1": "v1"}, "flt": {"f2": "v1", "f1": None}, "_cond": "sel and not flt"},
    "backslash": {"sel": {"f1": "C:\\\\x\\\\v1", "f2": "a\\\\*"}},
    "numstr": {"sel": {"f1": "5", "f2": 5}},
    "hashes": {"sel": {"Hashes|contains": ["MD5=0123456789abcdef0123456789abcdef", "SHA1=0123456789abcdef0123456789abcdef01234567"], "f1": "v1"}},
    "placeholder": {"sel": {"f1|expand": "%P%", "f2": "v1"}},
    "fieldref-all": {"sel": {"f3|fieldref|all": ["f1", "f2"]}},
    "all-single": {"sel": {"f2|all": ["v1"], "f3|contains|all": "v1", "f1": "x"}},
    "all-single-ph": {"sel": {"f1|contains|all|expand": "%P%", "f2|all": ["v1"]}},
}
FIELDS = ["f1", "f5"]


def bounds(tier):
    return dict(BOUNDS[tier], rules=list(RULES), transformations=len(catalogue()), scopes=[s[0] for s in SCOPES])


def rule_doc(name, product="windows"):
    d = copy.deepcopy(RULES[name])
    cond = d.pop("_cond", "sel")
    return {"title": name, "logsource": {"category": "cat", "product": product}, "fields": list(FIELDS), "detection": dict(d, condition=cond)}


# ------------------------------------------------------------------------------------------------ reference model of a rule
class Item:
    def __init__(self, field, chain, raw):
        self.field, self.chain, self.raw = field, chain, raw
        vals, linking, neg = R.apply_chain(raw, chain, has_field=field is not None)
        self.values, self.linking, self.neg = vals, linking, neg

    def formula(self):
        fld = self.field
        if not self.values:
            f = F.a_null(fld)
        else:
            fs = [RR.value_formula(fld, v, {"native_cidr": True}) for v in self.values]
            f = fs[0] if len(fs) == 1 else (F.AND(fs) if self.linking == "and" else F.OR(fs))
        return F.NOT(f) if self.neg else f

    def clone(self, field):
        c = copy.copy(self)
        c.field = field
        c.values = list(self.values)
        return c


def build_det(defn):
    if isinstance(defn, dict):
        items = []
        for k, v in defn.items():
            field, *chain = k.split("|")
            items.append(Item(field or None, chain, v if isinstance(v, list) else [v]))
        return ["map", items]
    if isinstance(defn, list):
        if all(not isinstance(x, (dict, list)) for x in defn):
            return ["map", [Item(None, [], defn)]]
        return ["list", [build_det(x) for x in defn]]
    return ["map", [Item(None, [], [defn])]]


def det_formula(node):
    if node[0] == "alt":  # alternatives created by a one-to-many field mapping: OR of the items (AND of the negated items)
        fs = [it.formula() for it in node[1]]
        if not fs:
            return None
        return F.AND(fs) if node[2] else F.OR(fs)
    if node[0] == "map":
        fs = [it.formula() if isinstance(it, Item) else det_formula(it) for it in node[1]]
        if not fs:
            return None
        return F.AND(fs)
    fs = [f for f in (det_formula(x) for x in node[1]) if f is not None]
    return F.OR(fs) if fs else None


def all_items(node):
    for x in list(node[1]):
        if isinstance(x, Item):
            yield node, x
        else:
            yield from all_items(x)


class Model:
    def __init__(self, doc):
        self.doc = doc
        self.dets = {n: build_det(d) for n, d in doc["detection"].items() if n != "condition"}
        self.cond = doc["detection"]["condition"]
        self.fields = list(doc.get("fields", []))
        self.logsource = dict(doc["logsource"])
        self.state = {}
        self.custom = {}
        self.extra_conditions = []  # (negated, formula)

    def formula(self):
        # conditions used by the catalogue: "sel" and "sel and not flt"
        def d(n):
            return det_formula(self.dets[n])
        if self.cond == "sel":
            f = d("sel")
        else:
            a, b = d("sel"), d("flt")
            if a is None and b is None:
                f = None
            elif b is None:
                f = a
            elif a is None:
                f = F.NOT(b)
            else:
                f = ("and", (a, F.NOT(b)))
        for neg, name in self.extra_conditions:
            cf = d(name)
            if cf is None:
                continue
            c = F.NOT(cf) if neg else cf
            f = c if f is None else ("and", (c, f))
        return f


# ------------------------------------------------------------------------------------------------ scopes
SCOPES = [
    ("none", {}, None),
    ("field", {"field_name_conditions": [{"type": "include_fields", "fields": ["f1"]}]}, None),
    ("item", {"detection_item_conditions": [{"type": "match_string", "cond": "any", "pattern": ".*v1"}]}, None),
    # the same field scope written as two OR-linked field-name conditions (the second matches nothing)
    ("field-or", {"field_name_conditions": [{"type": "include_fields", "fields": ["zz"]}, {"type": "include_fields", "fields": ["f1"]}], "field_name_cond_op": "or"}, None),
    # an exclusion list that excludes nothing: everything is in scope, also items without a field name (keywords)
    ("exclude-none", {"field_name_conditions": [{"type": "exclude_fields", "fields": ["zz"]}]}, None),
    ("rule-true", {"rule_conditions": [{"type": "logsource", "product": "windows"}]}, True),
    ("rule-false", {"rule_conditions": [{"type": "logsource", "product": "linux"}]}, False),
]


SCOPE_G1 = ("field-g1", {"field_name_conditions": [{"type": "include_fields", "fields": ["g1"]}]}, None)
SCOPE_H2 = ("field-h2", {"field_name_conditions": [{"type": "include_fields", "fields": ["h2", "g2"]}]}, None)
SCOPE_FIELDS = {"field": ["f1"], "field-or": ["f1"], "field-g1": ["g1"], "field-h2": ["h2", "g2"]}


def plain_values(it):
    out = []
    for v in it.values:
        for x in (v[1] if v[0] == "exp" else [v]):
            if x[0] == "str":
                out.append(R.plain_of(x[2]))
    return out


def name_ok(scope, name):
    return scope not in SCOPE_FIELDS or name in SCOPE_FIELDS[scope]


def item_ok(scope, it):
    """item-level gate for value transformations"""
    if scope in SCOPE_FIELDS:
        flds = [it.field]
        names = SCOPE_FIELDS[scope]
        return any(f in names for f in flds) or any(v[0] == "fieldref" and v[1] in names for v in it.values)
    if scope == "item":
        return any(re.match(".*v1", p) for p in plain_values(it))
    return True


# ------------------------------------------------------------------------------------------------ reference rewrites
def map_values(it, fn):
    """apply fn(model value)-> list of model values to every (non-expansion and expansion-contained) value"""
    out = []
    for v in it.values:
        if v[0] == "exp":
            inner = []
            for x in v[1]:
                inner.extend(fn(x))
            out.append(("exp", tuple(inner)))
        else:
            r = fn(v)
            if len(r) > 1 and it.linking == "and":
                out.append(("exp", tuple(r)))  # alternatives for one value stay OR-linked
            else:
                out.extend(r)
    it.values = out


def t_fieldmap(namefn):
    """namefn(name) -> None | str | [str]"""
    def apply(m, scope):
        for dn, node in m.dets.items():
            for parent, it in all_items(node):
                if scope == "item" and not item_ok(scope, it):
                    continue
                # field references in values
                def vf(v):
                    if v[0] == "fieldref" and name_ok(scope, v[1]):
                        t = namefn(v[1])
                        if t is not None:
                            ts = [t] if isinstance(t, str) else t
                            return [("fieldref", x, v[2], v[3]) for x in ts]
                    return [v]
                map_values(it, vf)
                if scope in SCOPE_FIELDS and not item_ok(scope, it) and not name_ok(scope, it.field):
                    continue
                if name_ok(scope, it.field):
                    t = namefn(it.field)
                    if t is not None:
                        if it.field is None:  # keyword -> field keeps substring semantics
                            def wrap(v):
                                if v[0] == "str":
                                    p = list(v[2])
                                    if not (p and p[0] == R.MULTI):
                                        p.insert(0, R.MULTI)
                                    if not (p and p[-1] == R.MULTI):
                                        p.append(R.MULTI)
                                    return [("str", v[1], R.norm(p))]
                                return [v]
                            map_values(it, wrap)
                        if isinstance(t, str):
                            it.field = t
                        else:  # one item per target field
                            alts = [it.clone(x) for x in t]
                            idx = next(i for i, x in enumerate(parent[1]) if x is it)
                            if parent[0] == "alt":
                                parent[1][idx : idx + 1] = alts
                            else:
                                parent[1][idx] = ["alt", alts, it.neg]
        newf = []
        for f in m.fields:
            t = namefn(f) if name_ok(scope, f) else None
            newf.extend([f] if t is None else ([t] if isinstance(t, str) else t))
        m.fields = newf
    return apply


def t_drop(m, scope):
    for dn, node in m.dets.items():
        def prune(n):
            n[1][:] = [x for x in n[1] if not (isinstance(x, Item) and gate(x))]
            for x in n[1]:
                if not isinstance(x, Item):
                    prune(x)
            n[1][:] = [x for x in n[1] if isinstance(x, Item) or x[1]]
        def gate(it):
            return item_ok(scope, it) if scope in ("field", "field-or", "item", "field-g1", "field-h2") else True
        prune(node)


def t_add_condition(conds, negated=False, template=False):
    def apply(m, scope):
        fs = []
        for k, v in conds.items():
            if template and isinstance(v, str):
                v = v.replace("$category", m.logsource.get("category") or "None").replace("$product", m.logsource.get("product") or "None")
            fs.append(Item(k, [], v if isinstance(v, list) else [v]))
        name = f"_added{len(m.extra_conditions)}"
        m.dets[name] = ["map", fs]  # the added condition is a detection of the rule: later items transform it like any other
        m.extra_conditions.append((negated, name))
    return apply


def t_values(fn, numbers=False):
    """fn(model str value) -> list of model values or None (unchanged)"""
    def apply(m, scope):
        for dn, node in m.dets.items():
            for parent, it in all_items(node):
                if not item_ok(scope, it):
                    continue
                def vf(v):
                    if v[0] == "str" or (numbers and v[0] == "num"):
                        r = fn(v)
                        return [v] if r is None else r
                    return [v]
                map_values(it, vf)
    return apply


def r_replace(regex, repl, skip_special=False, interpret_special=False):
    rx = re.compile(regex)
    def fn(v):
        if v[0] == "num":  # documented rewrite: a number is only affected if the regular expression matches its text
            if rx.search(str(v[1])):
                return [("str", False, R.parse_sigma_string(rx.sub(repl, str(v[1]))))]
            return None
        if v[0] != "str":
            return None
        parts = v[2]
        if skip_special:
            out = []
            for p in parts:
                if isinstance(p, str):
                    s = rx.sub(repl, p)
                    out.extend(R.parse_sigma_string(s) if interpret_special else [s])
                else:
                    out.append(p)
            return [("str", v[1], R.norm(out))]
        if any(isinstance(p, tuple) for p in parts):
            raise Unspec("replace_string on placeholders")
        return [("str", v[1], R.parse_sigma_string(rx.sub(repl, R.plain_of(parts))))]
    return fn


class Unspec(Exception):
    pass


def r_map(mapping):
    def fn(v):
        if v[0] != "str":
            return None
        t = mapping.get(R.plain_of(v[2]))
        if t is None:
            return None
        return [("str", v[1], R.parse_sigma_string(x)) for x in ([t] if isinstance(t, str) else t)]
    return fn


def t_set_value(val):
    def apply(m, scope):
        for dn, node in m.dets.items():
            for parent, it in all_items(node):
                if item_ok(scope, it):
                    map_values(it, lambda v: [R.model_value(val)])
    return apply


def r_convert(target):
    def fn(v):
        if target == "str" and v[0] == "num":
            return [("str", False, R.parse_sigma_string(str(v[1])))]
        if target == "num" and v[0] == "str":
            try:
                return [("num", int(R.plain_of(v[2])))]
            except ValueError:
                raise Unspec("not a number")
        return None
    return fn


def r_case(method):
    def fn(v):
        if v[0] != "str":
            return None
        f = str.lower if method == "lower" else str.upper
        return [("str", v[1], R.norm([f(p) if isinstance(p, str) else p for p in v[2]]))]
    return fn


def t_hashes(m, scope):
    for dn, node in m.dets.items():
        for i, x in enumerate(list(node[1])):
            if isinstance(x, Item) and x.field in ("Hashes", "Hash") and item_ok(scope, x):
                subs = []
                for v in x.values:
                    text = R.plain_of(v[2]).strip("*")
                    algo, val = text.split("=")
                    it = Item("File" + algo, [], [val])
                    subs.append(["map", [it]])
                node[1][i] = ["list", subs]


def t_placeholder(kind):
    def apply(m, scope):
        for dn, node in m.dets.items():
            for parent, it in all_items(node):
                if not item_ok(scope, it):
                    continue
                def vf(v):
                    if kind == "none":
                        return [v]
                    if v[0] == "str" and any(isinstance(p, tuple) for p in v[2]):
                        if kind == "wildcard":
                            return [("str", v[1], R.norm([R.MULTI if isinstance(p, tuple) else p for p in v[2]]))]
                        outs = []
                        for val in ["x", "y*"]:
                            outs.append(("str", v[1], R.norm([x for p in v[2] for x in (R.parse_sigma_string(val) if isinstance(p, tuple) else (p,))])))
                        return outs
                    return [v]
                map_values(it, vf)
    return apply


def t_attr(fn):
    def apply(m, scope):
        fn(m)
    return apply


def catalogue():
    """(name, yaml dict, reference function, kind, identity?)"""
    c = []
    add = lambda *a: c.append(a)
    add("map-1:1", {"type": "field_name_mapping", "mapping": {"f1": "g1", "f3": "g3"}}, t_fieldmap(lambda n: {"f1": "g1", "f3": "g3"}.get(n)), "field", False)
    add("map-1:n", {"type": "field_name_mapping", "mapping": {"f1": ["g1", "g2"], "f2": ["h1", "h2", "h3"]}}, t_fieldmap(lambda n: {"f1": ["g1", "g2"], "f2": ["h1", "h2", "h3"]}.get(n)), "field", False)
    add("map-n:1", {"type": "field_name_mapping", "mapping": {"f1": "g", "f2": "g", "f3": "g"}}, t_fieldmap(lambda n: {"f1": "g", "f2": "g", "f3": "g"}.get(n)), "field", False)
    add("map-keyword", {"type": "field_name_mapping", "mapping": {None: "msg", "f2": "g2"}}, t_fieldmap(lambda n: {None: "msg", "f2": "g2"}.get(n)), "field", False)
    add("map-unmapped", {"type": "field_name_mapping", "mapping": {"zz": "yy"}}, t_fieldmap(lambda n: None), "field", True)
    add("prefixmap", {"type": "field_name_prefix_mapping", "mapping": {"f": "g.", "Hash": "h."}}, t_fieldmap(lambda n: None if n is None else ("g." + n[1:] if n.startswith("f") else ("h." + n[4:] if n.startswith("Hash") else None))), "field", False)
    add("prefixmap-miss", {"type": "field_name_prefix_mapping", "mapping": {"zz": "y"}}, t_fieldmap(lambda n: None), "field", True)
    add("prefix", {"type": "field_name_prefix", "prefix": "p."}, t_fieldmap(lambda n: None if n is None else "p." + n), "field", False)
    add("suffix", {"type": "field_name_suffix", "suffix": ".s"}, t_fieldmap(lambda n: None if n is None else n + ".s"), "field", False)
    add("drop", {"type": "drop_detection_item"}, t_drop, "item", False)
    add("addcond", {"type": "add_condition", "conditions": {"src": "x", "idx": ["a", "b"]}}, t_add_condition({"src": "x", "idx": ["a", "b"]}), "rule", False)
    add("addcond-neg", {"type": "add_condition", "conditions": {"src": "x"}, "negated": True}, t_add_condition({"src": "x"}, negated=True), "rule", False)
    add("addcond-tmpl", {"type": "add_condition", "conditions": {"src": "$category", "p": "pre-$product"}, "template": True}, t_add_condition({"src": "$category", "p": "pre-$product"}, template=True), "rule", False)
    add("replace", {"type": "replace_string", "regex": "v", "replacement": "W"}, t_values(r_replace("v", "W"), numbers=True), "value", False)
    add("replace-group", {"type": "replace_string", "regex": "^(.)1$", "replacement": "\\g<1>-one"}, t_values(r_replace("^(.)1$", "\\g<1>-one"), numbers=True), "value", False)
    add("replace-prefix", {"type": "replace_string", "regex": "^", "replacement": "x"}, t_values(r_replace("^", "x"), numbers=True), "value", False)
    add("replace-miss", {"type": "replace_string", "regex": "zzz", "replacement": "W"}, t_values(r_replace("zzz", "W"), numbers=True), "value", True)
    add("replace-skip", {"type": "replace_string", "regex": "v", "replacement": "W*", "skip_special": True}, t_values(r_replace("v", "W*", True, False), numbers=True), "value", False)
    add("replace-skip-interp", {"type": "replace_string", "regex": "v", "replacement": "W*", "skip_special": True, "interpret_special": True}, t_values(r_replace("v", "W*", True, True), numbers=True), "value", False)
    add("replace-wild", {"type": "replace_string", "regex": "v", "replacement": "W*"}, t_values(r_replace("v", "W*"), numbers=True), "value", False)
    add("mapstr-1:1", {"type": "map_string", "mapping": {"v1": "w1", "Va": "wa"}}, t_values(r_map({"v1": "w1", "Va": "wa"})), "value", False)
    add("mapstr-1:n", {"type": "map_string", "mapping": {"v1": ["w1", "w2*"]}}, t_values(r_map({"v1": ["w1", "w2*"]})), "value", False)
    add("mapstr-empty", {"type": "map_string", "mapping": {"v1": [], "Va": "", "x": []}}, t_values(r_map({"v1": [], "Va": "", "x": []})), "value", False)
    add("mapstr-miss", {"type": "map_string", "mapping": {"zz": "y"}}, t_values(r_map({"zz": "y"})), "value", True)
    for nm, val in (("str", "S*"), ("num", 7), ("bool", True), ("null", None)):
        add("setval-" + nm, {"type": "set_value", "value": val}, t_set_value(val), "value", False)
    add("convert-str", {"type": "convert_type", "target_type": "str"}, t_values(r_convert("str"), numbers=True), "value", False)
    add("convert-num", {"type": "convert_type", "target_type": "num"}, t_values(r_convert("num")), "value", False)
    add("case-lower", {"type": "case", "method": "lower"}, t_values(r_case("lower")), "value", False)
    add("case-upper", {"type": "case", "method": "upper"}, t_values(r_case("upper")), "value", False)
    add("hashes", {"type": "hashes_fields", "valid_hash_algos": ["MD5", "SHA1"], "field_prefix": "File"}, t_hashes, "item", False)
    add("ph-wildcard", {"type": "wildcard_placeholders"}, t_placeholder("wildcard"), "value", False)
    add("ph-values", {"type": "value_placeholders"}, t_placeholder("values"), "value", False)
    add("ph-include-miss", {"type": "wildcard_placeholders", "include": ["zz"]}, t_placeholder("none"), "value", True)
    add("regex-none", {"type": "regex", "method": "plain", "detection_item_conditions": [{"type": "match_string", "cond": "all", "pattern": "^zzz"}]}, lambda m, s: None, "value", True)
    add("nest", {"type": "nest", "items": [{"type": "field_name_prefix", "prefix": "p."}, {"type": "replace_string", "regex": "v", "replacement": "W"}]},
        (lambda m, s: (t_fieldmap(lambda n: None if n is None else "p." + n)(m, s if s.startswith("rule") else "none"), t_values(r_replace("v", "W"))(m, s if s.startswith("rule") else "none")) and None), "nest", False)
    add("logsource", {"type": "change_logsource", "category": "newcat", "product": "newprod"}, t_attr(lambda m: m.logsource.clear() or m.logsource.update(category="newcat", product="newprod")), "rule", False)
    add("state", {"type": "set_state", "key": "k", "val": "v"}, t_attr(lambda m: m.state.update(k="v")), "rule", False)
    add("addfield", {"type": "add_field", "field": ["n1", "f1"]}, t_attr(lambda m: m.fields.extend(["n1", "f1"])), "rule", False)
    add("removefield", {"type": "remove_field", "field": ["f1", "zz"]}, t_attr(lambda m: m.fields.remove("f1") if "f1" in m.fields else None), "rule", False)
    add("setfield", {"type": "set_field", "fields": ["a", "b"]}, t_attr(lambda m: (m.fields.clear(), m.fields.extend(["a", "b"]))), "rule", False)
    add("customattr", {"type": "set_custom_attribute", "attribute": "ca", "value": {"x": 1}}, t_attr(lambda m: m.custom.update(ca={"x": 1})), "rule", False)
    return c


def scopes_for(kind):
    if kind == "rule":
        return [s for s in SCOPES if s[0] in ("none", "rule-true", "rule-false")]
    if kind == "nest":
        return [s for s in SCOPES if s[0] in ("none", "rule-true", "rule-false")]
    return SCOPES


# ------------------------------------------------------------------------------------------------ implementation side
def run_impl(doc, items, vars_=None, again=False):
    from sigma.processing.pipeline import ProcessingPipeline
    from sigma.rule import SigmaRule

    pd = {"name": "c12", "priority": 1, "vars": {"P": ["x", "y*"]}, "transformations": copy.deepcopy(items)}
    pipe = ProcessingPipeline.from_dict(pd)
    rule = SigmaRule.from_dict(copy.deepcopy(doc))
    b = V.make_backend_class(K)(pipe)
    if again:  # another rule (other log source) went through the same backend and pipeline objects before
        other = copy.deepcopy(doc)
        other["logsource"] = {"category": "othercat", "product": "linux", "service": "svc"}
        other["title"] = "earlier"
        try:
            b.convert_rule(SigmaRule.from_dict(other))
        except Exception:
            pass
        if again == "twice":
            b.convert_rule(SigmaRule.from_dict(copy.deepcopy(doc)))
    qs = b.convert_rule(rule)
    lp = b.last_processing_pipeline
    ls = {k: v for k, v in rule.logsource.to_dict().items() if k in ("category", "product", "service")}
    return qs, {"fields": list(rule.fields), "logsource": ls, "state": dict(lp.state), "custom": dict(rule.custom_attributes)}


def judge(res, rname, product, steps, label):
    """steps: list of (tname, yaml, reffn, kind, identity, scope tuple)"""
    from sigma.exceptions import SigmaError

    doc = rule_doc(rname, product)
    items, applies_all = [], True
    for i, (tn, y, rf, kind, ident, sc) in enumerate(steps):
        it = dict(copy.deepcopy(y), id=f"t{i}")
        for k2, v2 in sc[1].items():
            if k2 in it:
                it[k2] = it[k2] + copy.deepcopy(v2)
            else:
                it[k2] = copy.deepcopy(v2)
        items.append(it)
    case = {"rule": rname, "product": product, "pipeline": _strkeys(items), "label": label}
    res["evaluations"] += 1
    # reference
    try:
        m = Model(doc)
        base = m.formula()
        for tn, y, rf, kind, ident, sc in steps:
            scope = sc[0]
            if scope == "rule-false" or (scope == "rule-true" and product != "windows"):
                continue
            rf(m, scope if scope in ("field", "field-or", "item", "field-g1", "field-h2") else "none")
        ref = m.formula()
        ref_attrs = {"fields": m.fields, "logsource": {k: v for k, v in m.logsource.items() if v is not None}, "state": m.state, "custom": m.custom}
    except (R.Reject, R.Unspecified, RR.RefUnsupported, Unspec, ValueError, KeyError) as e:
        ref = "unspec"
    try:
        base_qs, _ = run_impl(doc, [])
    except Exception:
        base_qs = None
    try:
        qs, attrs = run_impl(doc, items)
    except (SigmaError, NotImplementedError) as e:
        if ref == "unspec" or ref is None:
            return
        if any(isinstance(p, tuple) for a in F.atoms(ref) if a[1] == "str" for p in a[3]):
            return  # unresolved placeholder: conversion must fail (C17)
        add_violation(res, f"unexpected-error:{type(e).__name__}:{label}", case, F.show(ref)[:300], str(e)[:200])
        return
    except Exception as e:
        if ref == "unspec":
            return  # the documented rewrite is not a rule the reference defines (e.g. a keyword of type null): not judged here
        add_violation(res, f"crash:{type(e).__name__}:{label}", case, "queries", repr(e)[:200])
        return
    identity = all(s[4] or s[5][0] == "rule-false" for s in steps)
    res["outcomes"].add(h64(qs))
    for mode in (True, "twice"):
        try:
            again = run_impl(doc, items, again=mode)
        except Exception as e:
            again = ("raised", type(e).__name__, str(e)[:150])
        if again != (qs, attrs):
            add_violation(res, f"second-rule-through-same-pipeline-differs:{label}", dict(case, earlier="other log source" if mode is True else "other log source, then the same rule"), [qs, attrs], again)
            break
    if identity:
        if base_qs is not None and qs != base_qs:
            m2 = "unexplained"
            if ref not in ("unspec", None) and len(qs) == 1:
                try:
                    m2 = mechanism(doc, steps, base if base is not None else ref, Q.qparse(qs[0], K))
                except Q.QParseError:
                    pass
            add_violation(res, f"identity-instance-changes-query:{m2}", case, base_qs, qs, detail=label)
        return
    if ref == "unspec":
        return
    if ref is None:
        if qs:
            add_violation(res, f"query-although-everything-dropped:{label}", case, [], qs)
        return
    if ref != base or ref_attrs["fields"] != FIELDS:
        res["nontrivial"].add(h64(case))
    if len(qs) != 1:
        add_violation(res, f"query-count:{label}", case, 1, qs)
        return
    try:
        got = Q.qparse(qs[0], K)
    except Q.QParseError as e:
        add_violation(res, f"query-not-in-grammar:{label}", case, F.show(ref)[:300], {"query": qs[0], "error": str(e)[:150]})
        return
    try:
        eq, cex = F.equivalent(ref, got)
    except F.TooManyAtoms:
        return
    if not eq:
        mech = mechanism(doc, steps, ref, got)
        if mech in ("structure", "atoms"):
            add_violation(res, f"not-equivalent:{label}:{mech}", case, F.show(ref)[:500], {"query": qs[0], "cex": cex})
        else:
            add_violation(res, f"not-equivalent:{mech}", case, F.show(ref)[:500], {"query": qs[0], "cex": cex}, detail=label)
    for k2 in ("fields", "logsource", "state", "custom"):
        if attrs[k2] != ref_attrs[k2]:
            add_violation(res, f"attribute-differs:{k2}:{label}", case, ref_attrs[k2], attrs[k2])


def _strkeys(x):
    if isinstance(x, dict):
        return {("~null" if k is None else str(k)): _strkeys(v) for k, v in x.items()}
    if isinstance(x, list):
        return [_strkeys(v) for v in x]
    return x


def mechanism(doc, steps, ref, got):
    import json

    vals = repr(doc["detection"])
    pj = json.dumps(_strkeys([s[1] for s in steps]))
    if "\\\\*" in vals and "replace_string" in pj:
        return "backslash-before-wildcard-lost-by-plain-form"
    if "replace_string" in pj and got is not None:
        # numbers turned into strings by a replacement that does not match them
        miss = F.atoms(ref) - F.atoms(got)
        extra = F.atoms(got) - F.atoms(ref)
        if miss and all(a[1] == "num" for a in miss) and all(a[1] == "str" for a in extra) and len(miss) == len(extra):
            return "non-matching-replace-turns-number-into-string"
    ra, ga = (F.atoms(ref), F.atoms(got)) if got is not None else (set(), set())
    if ra == ga:
        return "structure"
    return "atoms"


def label_of(steps):
    return "+".join(f"{s[0]}@{s[5][0]}" for s in steps)


def space(tier):
    cat = catalogue()
    for t in cat:
        for sc in scopes_for(t[3]):
            for rn in RULES:
                for product in (("windows",) if sc[0] != "rule-true" else ("windows", "linux")):
                    yield rn, product, [t + (sc,)]
    if BOUNDS[tier]["chains"]:
        fv = [t for t in cat if t[3] in ("field", "value", "item") and not t[4]]
        for a in cat:  # an added condition is part of the rule for every later item
            if a[0].startswith("addcond"):
                for b in fv:
                    if b[0].startswith("ph-") or "hashes" in b[0]:
                        continue
                    for rn in ("single", "two-dets", "keywords"):
                        yield rn, "windows", [a + (SCOPES[0],), b + (SCOPES[0],)]
        for a, b in itertools.permutations(fv, 2):
            if a[0].startswith("ph-") or b[0].startswith("ph-") or a[0].startswith("setval") or "hashes" in (a[0], b[0]):
                continue
            for rn in ("multi", "fieldref", "two-dets", "keywords", "cased", "neq", "all"):
                yield rn, "windows", [a + (SCOPES[0],), b + (SCOPES[0],)]
                if a[0] == "map-1:n" and b[3] == "value":
                    for sb in (SCOPE_G1, SCOPE_H2):
                        yield rn, "windows", [a + (SCOPES[0],), b + (sb,)]
                if BOUNDS[tier]["chain_scopes"]:
                    for sa, sb in ((SCOPES[1], SCOPES[0]), (SCOPES[0], SCOPES[1]), (SCOPES[2], SCOPES[0]), (SCOPES[0], SCOPES[2])):
                        yield rn, "windows", [a + (sa,), b + (sb,)]
    if BOUNDS[tier]["triples"]:  # every ordered triple of field / value / item rewrites, whole-rule scope
        fv3 = [t for t in fv if not (t[0].startswith("ph-") or t[0].startswith("setval") or "hashes" in t[0])]
        for a, b, c in itertools.permutations(fv3, 3):
            for rn in ("multi", "fieldref", "two-dets", "keywords", "cased", "neq", "all"):
                yield rn, "windows", [a + (SCOPES[0],), b + (SCOPES[0],), c + (SCOPES[0],)]


NSH = 48


def plan(tier, seed):
    return list(range(NSH))


def run_shard(shard, tier, seed):
    res = new_result()
    for n, (rn, product, steps) in enumerate(space(tier)):
        if n % NSH != shard:
            continue
        judge(res, rn, product, steps, label_of(steps))
        if len(res["samples"]) < 2 and len(steps) == 1 and steps[0][0] == "map-1:n":
            res["samples"].append({"rule": rn, "transformation": steps[0][1], "scope": steps[0][5][0]})
    return res


def replay(case):
    res = new_result()
    for tier in ("quick", "thorough"):
        for rn, product, steps in space(tier):
            if rn == case["rule"] and product == case["product"] and label_of(steps) == case["label"]:
                judge(res, rn, product, steps, label_of(steps))
                return res["violations"]
    return []
