"""C15 - converting a rule gives the same result whatever was converted before."""
import copy
import random

from mc import explore as E
from mc import vbackend as V
from mc.runner import add_violation, h64, new_result

PROPERTY = "C15"
LEVEL = "model_checking"
RULE = (
    "explicit-state exploration by history replay: every history up to the depth bound over the event menu (load rules, "
    "convert collection, convert single rule with backend A or B, re-initialise the pipeline, create a second backend of "
    "the same class / sharing the same pipeline object, failing conversions at three stages incl. inside the negated "
    "not-equals rendering) is executed on fresh real objects; after every history each probe rule is converted with backend "
    "A and the (queries, error) result must equal the result in a fresh-equivalent setup (new backend class, new pipeline "
    "from the same dict, cleared caches); backend class attributes must be unchanged after every event. canon = class "
    "attributes, pipeline state/applied ids/field tracking, owner of every pipeline item, keys of the two module caches, "
    "backend.errors. non-trivial = history containing a conversion or a failure before the probe."
)
ASSUMPTIONS = ["fresh-equivalent setup is the reference", "errors compared by type and message", "random module seeded per history (library draws only name detections)"]
MENU = ["loadW", "loadL", "convColl", "convW", "convL", "convN", "init", "newB", "newBshared", "convB_W", "convB_L", "optC", "F_pipe", "F_ph_neg", "F_cond"]
BOUNDS = {"quick": dict(depth=4), "thorough": dict(depth=5)}
PROBES = ("W", "L", "W2", "S", "O")
NOCS = frozenset(V.ALL_TEMPLATES)
KCFG = V.K(not_eq=True, state_expr=True)


def bounds(tier):
    return dict(BOUNDS[tier], menu=MENU, probes=list(PROBES))


def rule_dict(kind):
    base = {"title": kind, "logsource": {"category": "c", "product": "windows"}}
    if kind == "W":
        base["detection"] = {"sel": {"f1": "a", "f2|fieldref": "f1"}, "flt": {"f3": "x"}, "condition": "sel and not flt"}
    elif kind == "W2":
        base["detection"] = {"sel": {"f1|contains": "b"}, "flt": {"f3": ["x", "y"]}, "condition": "sel and not flt"}
        base["fields"] = ["f1", "f3"]
    elif kind == "L":
        base["logsource"] = {"category": "c", "product": "linux"}
        base["detection"] = {"sel": {"f1": "a", "f2|fieldref": "f1"}, "flt": {"f3": "x"}, "condition": "sel and not flt"}
    elif kind == "S":  # strict rule whose own field is the TARGET name of the mapping f1 -> g1: must be reported as unmapped
        base["tags"] = ["attack.strict"]
        # f2 is mapped by the class-level backend pipeline: the strict item of the user pipeline must see that mapping
        base["detection"] = {"sel": {"g1": "z", "f2": "y"}, "flt": {"f3": "x"}, "condition": "sel and not flt"}
    elif kind == "N":  # uses f9, which the user pipeline maps to f2 (the backend pipeline maps f2 -> g2)
        base["detection"] = {"sel": {"f9": "n"}, "flt": {"f3": "x"}, "condition": "sel and not flt"}
    elif kind == "F_pipe":
        base["tags"] = ["attack.t1234"]
        base["detection"] = {"sel": {"f1": "a"}, "flt": {"f3": "x"}, "condition": "sel and not flt"}
    elif kind == "F_ph_neg":
        base["detection"] = {"sel": {"f1": "a"}, "flt": {"f3|expand": "%nope%"}, "condition": "sel and not flt"}
    elif kind == "F_cond":
        base["detection"] = {"sel": {"f1": "a"}, "condition": "sel and not flt"}
    return base


USER_PIPE = {
    "name": "user", "priority": 20,
    "transformations": [
        {"id": "st", "type": "set_state", "key": "index", "val": "win", "rule_conditions": [{"type": "logsource", "product": "windows"}]},
        {"id": "map1", "type": "field_name_mapping", "mapping": {"f1": "g1", "f3": ["g3a", "g3b"], "f9": "f2"}},
        {"id": "strict", "type": "strict_field_mapping_failure", "rule_conditions": [{"type": "tag", "tag": "attack.strict"}]},
        {"id": "cond", "type": "add_condition", "conditions": {"src": "winlog"}, "rule_conditions": [{"type": "processing_state", "key": "index", "val": "win"}]},
        {"id": "condt", "type": "add_condition", "conditions": {"lsrc": "$product/$category"}, "template": True},
        {"id": "nest", "type": "nest", "items": [{"id": "sfx", "type": "field_name_suffix", "suffix": "_n", "field_name_conditions": [{"type": "include_fields", "fields": ["g1"]}]}]},
        {"id": "after", "type": "field_name_prefix", "prefix": "p.", "rule_conditions": [{"type": "processing_item_applied", "processing_item_id": "cond"}],
         "field_name_conditions": [{"type": "include_fields", "fields": ["src"]}]},
        # not idempotent: a detection object of the added condition that survives from an earlier rule grows with every rule
        {"id": "rep", "type": "replace_string", "regex": "log$", "replacement": "loglog"},
        {"id": "rf", "type": "rule_failure", "message": "unsupported", "rule_conditions": [{"type": "tag", "tag": "attack.t1234"}]},
    ],
}
# query post-processing that reads the state of the pipeline it is bound to
USER_PIPE["postprocessing"] = [{"id": "pp", "type": "template", "template": "{{ query }} #idx={{ pipeline.state.index }}#"}]
BACKEND_PIPE = {
    "name": "backend", "priority": 10,
    "transformations": [
        {"id": "bst", "type": "set_state", "key": "tbl", "val": "events"},
        {"id": "bmap", "type": "field_name_mapping", "mapping": {"f2": "g2"}, "rule_conditions": [{"type": "processing_state", "key": "tbl", "val": "events"}]},
    ],
}


class World:
    """fresh real objects for one history"""

    def __init__(self):
        from sigma.conditions import _parse_condition_string
        from sigma.modifiers import SigmaModifier
        from sigma.processing.pipeline import ProcessingPipeline

        _parse_condition_string.cache_clear()
        SigmaModifier._type_hint_cache.clear()
        random.seed(4711)
        self.cls = V.make_backend_class(KCFG, fresh=True)
        self.cls.backend_processing_pipeline = ProcessingPipeline.from_dict(copy.deepcopy(BACKEND_PIPE))
        self.cls._verif_initial["backend_processing_pipeline"] = self.cls.backend_processing_pipeline
        self.pipeA = ProcessingPipeline.from_dict(copy.deepcopy(USER_PIPE))
        self.A = self.cls(self.pipeA, collect_errors=True)
        # a second backend class WITHOUT a backend pipeline (its instances differ only in backend options and user pipelines)
        self.cls2 = V.make_backend_class(KCFG, fresh=True)
        self.B = None
        self.loaded = []
        self.trace = []

    def load(self, kind):
        from sigma.rule import SigmaRule

        return SigmaRule.from_dict(rule_dict(kind))

    def conv(self, backend, kind):
        from sigma.exceptions import SigmaError

        n0 = len(backend.errors)
        try:
            q = backend.convert_rule(self.load(kind))
        except (SigmaError, NotImplementedError) as e:
            return ("raised", type(e).__name__, str(e))
        except Exception as e:
            return ("crash", type(e).__name__, str(e)[:200])
        errs = [(type(e).__name__, str(e)) for _, e in backend.errors[n0:]]
        return ("ok", q, errs)

    def event(self, ev):
        from sigma.collection import SigmaCollection
        from sigma.processing.pipeline import ProcessingPipeline

        if ev == "loadW":
            self.loaded.append(self.load("W"))
        elif ev == "loadL":
            self.loaded.append(self.load("L"))
        elif ev == "convColl":
            try:
                self.A.convert(SigmaCollection(list(self.loaded)))
            except Exception as e:
                self.trace.append(("convColl", type(e).__name__))
            self.loaded = []
        elif ev == "convW":
            self.conv(self.A, "W")
        elif ev == "convL":
            self.conv(self.A, "L")
        elif ev == "convN":
            self.conv(self.A, "N")
        elif ev == "init":
            self.A.init_processing_pipeline()
        elif ev == "newB":
            self.B = self.cls(ProcessingPipeline.from_dict(copy.deepcopy(USER_PIPE)), collect_errors=True)
            self.B.init_processing_pipeline()
        elif ev == "newBshared":
            self.B = self.cls(self.pipeA, collect_errors=True)
            self.B.init_processing_pipeline()
        elif ev == "convB_W":
            if self.B is not None:
                self.conv(self.B, "W")
        elif ev == "optC":  # an instance of the pipeline-less class with a backend option and no user pipeline converts a rule
            c = self.cls2(None, collect_errors=True, index="secret")
            self.conv(c, "W")
        elif ev == "convB_L":
            if self.B is not None:
                self.conv(self.B, "L")
        elif ev in ("F_pipe", "F_ph_neg", "F_cond"):
            self.conv(self.A, ev)
        else:
            raise ValueError(ev)

    def canon(self):
        from sigma.conditions import _parse_condition_string
        from sigma.modifiers import SigmaModifier

        p = getattr(self.A, "last_processing_pipeline", None)
        owners = []
        if p is not None:
            for it in p.items:
                owners.append((it.identifier, "self" if it._pipeline is p else ("none" if it._pipeline is None else "other")))
        return [
            V.class_attrs_intact(self.cls),
            sorted(p.state.items()) if p else None,
            sorted(p.applied_ids) if p else None,
            sorted((k, sorted(v)) for k, v in p.field_name_applied_ids.items()) if p else None,
            owners,
            _parse_condition_string.cache_info().currsize,
            sorted(c.__name__ for c in SigmaModifier._type_hint_cache),
            len(self.A.errors), self.B is not None,
        ]


_FRESH = {}


def probe(w, kind):
    if kind == "O":  # a new instance of the pipeline-less class, without backend options, whose pipeline renders the option variable
        from sigma.processing.pipeline import ProcessingPipeline

        po = ProcessingPipeline.from_dict({"name": "o", "priority": 5, "postprocessing": [{"id": "ppo", "type": "template", "template": "{{ query }} #opt={{ pipeline.vars.backend_index }}#"}]})
        return w.conv(w.cls2(po, collect_errors=True), "W")
    return w.conv(w.A, kind)


def fresh_probe(kind):
    if kind not in _FRESH:
        w = World()
        _FRESH[kind] = probe(w, kind)
    return _FRESH[kind]


def stale_owner_mechanism(hist):
    """known mechanism: another backend initialised a pipeline sharing item objects (user pipeline object or the class-level
    backend pipeline) after A's last (re-)initialisation, so A's items are owned by the other combined pipeline"""
    last_init_A = -1
    for i, ev in enumerate(hist):
        if ev in ("init", "convColl") or (last_init_A < 0 and ev in ("convW", "convL", "convN", "F_pipe", "F_ph_neg", "F_cond")):
            last_init_A = i
    for i, ev in enumerate(hist):
        if ev in ("newB", "newBshared") and i > last_init_A >= 0:
            return True
    return False


def judge(res, st, hist):
    w = World()
    case = {"history": list(hist)}
    res["evaluations"] += 1
    st.history()
    for ev in hist:
        w.event(ev)
        st.transition()
        bad = V.class_attrs_intact(w.cls)
        if bad:
            add_violation(res, f"class-attributes-changed-after:{ev}", case, [], bad)
            break
    st.state(w.canon())
    if any(e.startswith(("conv", "F_")) for e in hist):
        res["nontrivial"].add(h64(hist))
    for kind in PROBES:
        got = probe(w, kind)
        exp = fresh_probe(kind)
        res["outcomes"].add(h64([kind, got == exp]))
        if got != exp:
            if stale_owner_mechanism(hist):
                sig = "probe-differs:pipeline-items-re-owned-by-other-backend-init"
            else:
                sig = f"probe-differs:unexplained:{got[0]}"
            add_violation(res, sig, dict(case, probe=kind), exp, got)
            break


def plan(tier, seed):
    return [("det",)] + [(a, b) for a in MENU for b in MENU]


def run_shard(shard, tier, seed):
    res = new_result()
    st = E.Stats(res)
    if shard[0] == "det":
        def obs(h):
            w = World()
            for ev in h:
                w.event(ev)
            return [w.canon(), [probe(w, k) for k in PROBES]]
        E.determinism_check(obs, E.histories(MENU, 2), limit=40)
        for h in E.histories(MENU, 1):
            judge(res, st, h)
        return res
    depth = BOUNDS[tier]["depth"]
    for h in E.histories(MENU, depth, prefix=shard):
        judge(res, st, h)
        if len(res["samples"]) < 1 and len(h) == depth:
            res["samples"].append({"history": list(h), "probes": list(PROBES)})
    return res


def replay(case):
    res = new_result()
    st = E.Stats(res)
    judge(res, st, tuple(case["history"]))
    return res["violations"]
