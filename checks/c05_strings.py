"""C05 - string values keep their exact characters and wildcards in every rendering."""
import itertools
import re

from mc import refsigma as R
from mc.runner import add_violation, h64, new_result

PROPERTY = "C05"
LEVEL = "exploration"
RULE = (
    "every string up to the length bound over the alphabet (see bounds) is parsed by SigmaString and compared with the "
    "reference parser; to_plain() is re-parsed; convert_value_str under every target escaping configuration is decoded by "
    "the configuration's own rules; to_regex()/RegexTransformation results are run (Python re) on every subject string and "
    "compared with a hand-written glob matcher; all slices s[i:j]; escape_and_quote_field for every name x field setting. "
    "non-trivial = string containing a backslash, wildcard, quote or configured metacharacter; distinct by (sub-check, string)."
)
RULE += (" " + "Quoting modes: always / values that are not a plain word / only values with whitespace (a bare quote character in an unquoted literal counts as metacharacter). The same string object is rendered by to_regex() for the default target, a target that additionally escapes '/', and the default target again; the regular expression is also written into a '/'-delimited literal and decoded.")
ASSUMPTIONS = [
    "target-language decoding uses the most lenient rules (escape + non-escapable char = literal escape char)",
    "Python's re module defines regular-expression semantics",
    "reference parser/glob matcher in mc/refsigma.py (self-tested at start-up)",
]
A_CORE = ["a", "B", "\\", "*", "?", '"', ":", "."]
A_EXT = A_CORE + ["'", "&", "(", "%", " ", "_", "^"]
SUBJ = ["a", "A", "b", "B", "\\", "*", ".", "/"]
A_RE = ["a", "B", "\\", "*", "?", ".", "|", "(", "+", "[", "^", "$", "{", "/"]
FIELD_A = ["a", " ", "'", "\\", "-"]
BOUNDS = {
    "quick": dict(core_len=4, ext_len=3, re_pat_len=3, re_subj_len=4, field_len=4, cfg_core_len=4),
    "thorough": dict(core_len=6, ext_len=4, re_pat_len=4, re_subj_len=4, field_len=5, cfg_core_len=5),
}


def bounds(tier):
    b = dict(BOUNDS[tier])
    b.update(core_alphabet=A_CORE, ext_alphabet=A_EXT, regex_subject_alphabet=SUBJ, regex_pattern_alphabet=A_RE, field_alphabet=FIELD_A,
             configurations=len(configs()), field_settings=len(field_settings()),
             beyond="random strings beyond the length bound are NOT explored (sampling is a different family)")
    return b


def strings(alphabet, maxlen):
    for n in range(maxlen + 1):
        for t in itertools.product(alphabet, repeat=n):
            yield "".join(t)


def configs():
    out = []
    for esc in ("\\", "^", None):
        for wm, ws in (("*", "?"), ("%", "_"), (".*", "."), (None, None)):
            for q in ('"', "'", ""):
                for ae in ("", ":", "E:"):
                    for flt in ("", "&", "Q", ":*"):  # Q = the quote character itself; ":*" overlaps add_escaped and a wildcard token
                        for qp in ("always", "pattern", "pattern-ws"):
                            if q == "" and qp != "always":
                                continue
                            if qp == "pattern-ws" and (flt or wm not in ("*", None)):
                                continue
                            a = ae.replace("E", esc or "")
                            if esc is None and ae == "E:":
                                continue
                            f = flt.replace("Q", q)
                            if flt == "Q" and not q:
                                continue
                            if flt in ("Q", ":*") and qp != "always":
                                continue
                            out.append((esc, wm, ws, q, a, f, qp))
    return out


def field_settings():
    out = []
    for fq in (None, "'", "`"):
        for fe in (None, "\\"):
            for feq in (True, False):
                for fep in (None, r"\s", r"[\\']"):
                    for fqp in (None, r"^\w+$"):
                        if fq is None and fqp is not None:
                            continue
                        if fe is None and (fep is not None or not feq):
                            continue
                        out.append((fq, fe, feq, fep, fqp))
    return out


_BK = {}


def backend_for(cfg):
    if cfg not in _BK:
        from sigma.conversion.base import TextQueryBackend

        esc, wm, ws, q, a, flt, qp = cfg
        attrs = dict(or_token="OR", and_token="AND", not_token="NOT", eq_token="=", group_expression="({expr})",
                     str_quote=q, escape_char=esc, wildcard_multi=wm, wildcard_single=ws, add_escaped=a, filter_chars=flt)
        if qp == "pattern":
            attrs.update(str_quote_pattern=re.compile(r"^\w+$"), str_quote_pattern_negation=True)
        if qp == "pattern-ws":  # quote only values that contain whitespace: values with a quote character stay unquoted
            attrs.update(str_quote_pattern=re.compile(r".*\s"), str_quote_pattern_negation=False)
        _BK[cfg] = type("C05Backend", (TextQueryBackend,), attrs)()
    return _BK[cfg]


def field_backend_for(fs):
    key = ("F",) + fs
    if key not in _BK:
        from sigma.conversion.base import TextQueryBackend

        fq, fe, feq, fep, fqp = fs
        attrs = dict(or_token="OR", and_token="AND", not_token="NOT", eq_token="=", field_quote=fq, field_escape=fe,
                     field_escape_quote=feq, field_escape_pattern=re.compile(fep) if fep else None,
                     field_quote_pattern=re.compile(fqp) if fqp else None, field_quote_pattern_negation=True)
        _BK[key] = type("C05FieldBackend", (TextQueryBackend,), attrs)()
    return _BK[key]


# ------------------------------------------------------------------------------------------------
def sub_parse_plain_slice(res, s):
    """(1) parse, (2) to_plain round trip, (6) slices"""
    from sigma.types import SigmaString

    ref = R.parse_sigma_string(s)
    ss = SigmaString(s)
    res["evaluations"] += 1
    got = R.from_sigma(ss)
    case = {"sub": "parse", "s": s}
    if got != ref:
        add_violation(res, "parse:parts-differ", case, ref, got)
        return
    plain = ss.to_plain()
    back = R.from_sigma(SigmaString(plain))
    back_ref = R.parse_sigma_string(plain)
    if back != ref or back_ref != ref:
        # mechanism: a literal backslash directly before a wildcard / escaped char / backslash
        fl = R.flat(ref)
        mech = any(c == "\\" and k + 1 < len(fl) and fl[k + 1] in ("\\", "*", "?", R.MULTI, R.SINGLE) for k, c in enumerate(fl))
        sig = "plain:literal-backslash-before-special-not-escaped" if mech else "plain:reparse-differs"
        add_violation(res, sig, {"sub": "plain", "s": s}, ref, {"plain": plain, "reparsed": back})
    n = len(R.flat(ref))
    if len(ss) != n:
        add_violation(res, "len:differs", {"sub": "len", "s": s}, n, len(ss))
    # (6) the slices the text backend uses to strip wildcards: [:-1] if it ends with a wildcard, [1:] if it starts
    #     with one, [1:-1] if both (general slicing is not part of the property)
    fl = R.flat(ref)
    use = []
    if fl and fl[-1] == R.MULTI:
        use.append((None, -1))
    if fl and fl[0] == R.MULTI:
        use.append((1, None))
    if len(fl) >= 2 and fl[0] == R.MULTI and fl[-1] == R.MULTI:
        use.append((1, -1))
    for a, b in use:
        try:
            sl = R.norm(R.from_sigma(ss[a:b]))
        except Exception as e:
            add_violation(res, "slice:exception:" + type(e).__name__, {"sub": "slice", "s": s, "i": a, "j": b}, "slice", repr(e))
            continue
        exp = R.slice_parts(ref, a, b)
        if sl != exp:
            add_violation(res, "slice:differs", {"sub": "slice", "s": s, "i": a, "j": b}, exp, sl)
    if any(c in s for c in "\\*?"):
        res["nontrivial"].add(h64("p" + s))
    res["outcomes"].add(h64(repr(got)))


def expected_after_filter(ref, flt):
    if not flt:
        return ref
    return R.norm([("".join(c for c in p if c not in flt) if isinstance(p, str) else p) for p in ref])


def sub_convert(res, s, cfg):
    from sigma.exceptions import SigmaError
    from sigma.types import SigmaString

    esc, wm, ws, q, a, flt, qp = cfg
    ref = R.parse_sigma_string(s)
    ss = SigmaString(s)
    b = backend_for(cfg)
    case = {"sub": "convert", "s": s, "cfg": list(cfg)}
    res["evaluations"] += 1
    try:
        out = b.convert_value_str(ss, None)
    except SigmaError:
        # allowed exactly when the configuration cannot express the string
        cannot = (wm is None and R.MULTI in ref) or (ws is None and R.SINGLE in ref)
        if not cannot:
            add_violation(res, "convert:rejects-expressible-string", case, "a literal", "SigmaError")
        res["outcomes"].add(h64("reject"))
        return
    except Exception as e:
        add_violation(res, "convert:non-sigma-exception:" + type(e).__name__, case, "literal or SigmaError", repr(e))
        return
    quoted = bool(q) and (qp == "always" or not re.match(r"^\w+$", ss.to_plain()))
    if bool(q) and qp == "pattern":
        # quoting decision is the backend's; the decoder recognises a quoted literal by its delimiters
        quoted = out.startswith(q) and len(out) >= 2 and not re.match(r"^\w+$", out)
    if bool(q) and qp == "pattern-ws":
        quoted = " " in s
    exp = expected_after_filter(ref, flt)
    dec, why = R.decode_literal(out, esc, wm, ws, q, a, quoted)
    res["outcomes"].add(h64([why, len(out) - len(s)]))
    if dec == exp:
        return
    # classify the mechanism
    fl = R.flat(exp)
    meta = set((wm or "") + (ws or "") + (q or "") + a)  # a bare quote character is a metacharacter in an unquoted literal too
    if esc is None:
        cls = "escape-none"
        mech = any(isinstance(c, str) and c in meta for c in fl)
        mname = "metacharacter-emitted-raw"
    elif esc not in a:
        cls = "escape-not-self-escaped"
        mech = any(
            c == esc and (k + 1 == len(fl) or fl[k + 1] in (R.MULTI, R.SINGLE) or (isinstance(fl[k + 1], str) and fl[k + 1] in meta))
            for k, c in enumerate(fl)
        )
        mname = "literal-escape-char-before-special-or-end"
    else:
        cls, mech, mname = "escape-self-escaped", False, ""
    sig = f"convert:{cls}:{mname if mech else 'unexplained'}"
    add_violation(res, sig, case, exp, {"text": out, "decoded": dec, "why": why})


def sub_field(res, name, fs):
    fq, fe, feq, fep, fqp = fs
    b = field_backend_for(fs)
    case = {"sub": "field", "name": name, "fs": list(fs)}
    res["evaluations"] += 1
    try:
        out = b.escape_and_quote_field(name)
    except Exception as e:
        add_violation(res, "field:exception:" + type(e).__name__, case, "text", repr(e))
        return
    # decode with the setting's own rules
    quoted = fq is not None and out.startswith(fq) and out.endswith(fq) and len(out) >= 2 and (fqp is None or not re.match(fqp, name))
    if fq is not None and fqp is None and not quoted:
        add_violation(res, "field:not-quoted", case, "quoted", out)
        return
    body = out[len(fq) :] if quoted else out
    dec, pos, bad, closed = [], 0, None, False
    while pos < len(body):
        c = body[pos]
        if fe and c == fe and pos + 1 < len(body) and (
            (fq and feq and body[pos + 1] == fq) or (fep and re.match(fep, body[pos + 1]))
        ):
            dec.append(body[pos + 1])
            pos += 2
            continue
        if quoted and c == fq:
            if pos + 1 != len(body):
                bad = "quote-terminates-field-early"
                break
            closed = True
            pos += 1
            continue
        dec.append(c)
        pos += 1
    if quoted and not closed and bad is None:
        bad = "unterminated-field"
    res["outcomes"].add(h64([bad, quoted, len(out) - len(name)]))
    if bad is None and "".join(dec) == name:
        return
    if fe is None or (not feq):
        cls = "no-quote-escaping-configured"
        mech = fq is not None and fq in name
    elif fep is None or not re.match(fep, fe):
        cls = "escape-char-not-self-escaped"
        mech = any(c == fe and (k + 1 == len(name) or name[k + 1] == fq or (fep and re.match(fep, name[k + 1]))) for k, c in enumerate(name))
    else:
        cls, mech = "fully-escaping", False
    add_violation(res, f"field:{cls}:{'explained' if mech else 'unexplained'}", case, name, {"text": out, "decoded": "".join(dec), "why": bad})


def _regex_backend():
    """a target that writes every string match as a /.../ regular expression; '/' is the extra character escaped in regular
    expressions, the escape set of string literals (letters!) must not leak into them"""
    if "RX" not in _BK:
        from sigma.conversion.base import TextQueryBackend

        attrs = dict(or_token="OR", and_token="AND", not_token="NOT", eq_token="=", group_expression="({expr})", str_quote='"', escape_char="\\",
                     wildcard_multi="*", wildcard_single="?", add_escaped="aB.", add_escaped_re="/", re_escape_escape_char=False,
                     eq_expression="{field}=~/{regex}/", wildcard_match_expression="{field}=~/{regex}/", case_sensitive_match_expression="{field}==~/{regex}/",
                     unbound_value_str_expression="_=~/{regex}/")
        _BK["RX"] = type("C05RegexBackend", (TextQueryBackend,), attrs)()
    return _BK["RX"]


def sub_regex(res, pat, subjects):
    from sigma.processing.transformations import RegexTransformation
    from sigma.types import SigmaRegularExpression, SigmaRegularExpressionFlag, SigmaString

    ref = R.parse_sigma_string(pat)
    ss = SigmaString(pat)
    forms = []
    try:
        first = ss.to_regex()
        forms.append(("to_regex", first, False))
        # the same string object rendered for a target that additionally escapes '/', then for the first target again
        custom = ss.to_regex("/")
        forms.append(("to_regex-custom", custom, False))
        txt = str(custom.regexp)
        for m in re.finditer(r"(\\*)/", txt):
            if len(m.group(1)) % 2 == 0:
                add_violation(res, "regex:to_regex-custom:extra-escaped-character-not-escaped", {"sub": "regex", "s": pat}, "every / escaped", txt)
                break
        # the regular expression written into a /.../ literal of the target: '/' and the escape character are escaped
        lit = first.escape(("/",), "\\", True, False)
        dec, k, bare = [], 0, False
        while k < len(lit):
            if lit[k] == "\\" and k + 1 < len(lit) and lit[k + 1] in "/\\":
                dec.append(lit[k + 1])
                k += 2
                continue
            if lit[k] == "/":
                bare = True
            dec.append(lit[k])
            k += 1
        if bare or "".join(dec) != str(first.regexp):
            add_violation(res, "regex:escape-for-delimited-literal:" + ("bare-delimiter" if bare else "decoded-differs"), {"sub": "regex", "s": pat}, str(first.regexp), {"literal": lit, "decoded": "".join(dec)})
        if str(ss.to_regex().regexp) != str(first.regexp) or str(SigmaString(pat).to_regex("/").regexp) != txt:
            add_violation(res, "regex:to_regex:result-depends-on-earlier-call", {"sub": "regex", "s": pat}, [str(first.regexp), str(SigmaString(pat).to_regex("/").regexp)], [str(ss.to_regex().regexp), txt])
    except Exception as e:
        add_violation(res, "regex:to_regex:exception:" + type(e).__name__, {"sub": "regex", "s": pat}, "regex", repr(e))
    for method, ci in (("plain", False), ("ignore_case_flag", True), ("ignore_case_brackets", True)):
        try:
            v = RegexTransformation(method=method).apply_string_value("f", SigmaString(pat))
        except Exception as e:
            add_violation(res, f"regex:{method}:exception:" + type(e).__name__, {"sub": "regex", "s": pat}, "regex", repr(e))
            continue
        forms.append((method, v, ci))
    # the regular-expression form as a backend emits it for field values, case-sensitive field values and keywords
    if pat != "":
        from sigma.rule import SigmaRule

        rb = _regex_backend()
        for path, det in (("field", {"f": pat}), ("cased", {"f|cased": pat}), ("keyword", [pat])):
            try:
                qs = rb.convert_rule(SigmaRule.from_dict({"title": "t", "logsource": {"category": "c"}, "detection": {"sel": det, "condition": "sel"}}))
            except Exception as e:
                add_violation(res, f"regex:backend-{path}:exception:" + type(e).__name__, {"sub": "regex", "s": pat, "path": path}, "query", repr(e)[:200])
                continue
            res["evaluations"] += 1
            q = qs[0]
            body = q[q.index("~/") + 2 : -1] if "~/" in q and q.endswith("/") else None
            if body is None or re.search(r"(?<!\\)(?:\\\\)*/", body):
                add_violation(res, f"regex:backend-{path}:delimiter-not-escaped", {"sub": "regex", "s": pat, "path": path}, "no bare / inside the /.../ literal", q)
                continue
            try:
                rx = re.compile(body, re.S | (0 if path == "cased" else re.I))
            except re.error as e:
                add_violation(res, f"regex:backend-{path}:invalid-regex", {"sub": "regex", "s": pat, "path": path}, "valid regular expression", {"query": q, "error": str(e)})
                continue
            for subj in subjects:
                want = R.glob_match(ref, subj, path != "cased")
                if want != (rx.fullmatch(subj) is not None):
                    add_violation(res, f"regex:backend-{path}:match-differs", {"sub": "regex", "s": pat, "subject": subj, "path": path}, want, {"query": q})
                    break
    for name, v, ci in forms:
        res["evaluations"] += 1
        if isinstance(v, SigmaString):  # the transformation keeps the empty string as a string
            if pat != "":
                add_violation(res, f"regex:{name}:not-converted", {"sub": "regex", "s": pat}, "regex", repr(v))
            continue
        flags = 0
        if SigmaRegularExpressionFlag.IGNORECASE in v.flags:
            flags |= re.I
        if ci and name == "ignore_case_flag" and not flags:
            add_violation(res, f"regex:{name}:flag-missing", {"sub": "regex", "s": pat}, "i flag", repr(v.flags))
        rx = re.compile(str(v.regexp), flags | re.S)
        for subj in subjects:
            want = R.glob_match(ref, subj, ci)
            got = rx.fullmatch(subj) is not None
            if want != got:
                add_violation(res, f"regex:{name}:match-differs", {"sub": "regex", "s": pat, "subject": subj, "form": name}, want, {"regex": str(v.regexp), "match": got})
                break
        res["outcomes"].add(h64([name, str(v.regexp) == pat]))
    res["nontrivial"].add(h64("r" + pat))


def selftest():
    for s in strings(A_CORE[:5] + ["%"], 4):
        p = R.parse_sigma_string(s)
        assert R.parse_sigma_string(R.plain_of(p)) == p, s
    import fnmatch

    for pat in strings(["a", "*", "?", "b"], 3):
        for subj in strings(["a", "b"], 3):
            assert R.glob_match(R.parse_sigma_string(pat), subj) == fnmatch.fnmatchcase(subj, pat), (pat, subj)
    for txt, cfg, exp in [('"a\\*b"', ("\\", "*", "?", '"', ""), ("a*b",)), ('"a*"', ("\\", "*", "?", '"', ""), ("a", R.MULTI))]:
        assert R.decode_literal(txt, *cfg, True)[0] == exp


# ------------------------------------------------------------------------------------------------
NSH = 32


def plan(tier, seed):
    return [("pps", k) for k in range(NSH)] + [("conv", k) for k in range(NSH)] + [("re", k) for k in range(NSH)] + [("field", 0)]


def run_shard(shard, tier, seed):
    res = new_result()
    b = BOUNDS[tier]
    kind, k = shard
    if kind == "pps":
        if k == 0:
            selftest()
        seen = set()
        for idx, s in enumerate(itertools.chain(strings(A_CORE, b["core_len"]), strings(A_EXT, b["ext_len"]))):
            if idx % NSH == k and s not in seen:
                seen.add(s)
                sub_parse_plain_slice(res, s)
                if len(res["samples"]) < 2 and len(s) >= 3 and "\\" in s:
                    res["samples"].append({"sub": "parse/plain/slice", "s": s})
    elif kind == "conv":
        cfgs = configs()
        for idx, s in enumerate(itertools.chain(strings(A_CORE, b["cfg_core_len"]), strings(A_EXT, b["ext_len"]))):
            if idx % NSH != k:
                continue
            for cfg in cfgs:
                sub_convert(res, s, cfg)
            if any(c in s for c in "\\*?\"':&%_^."):
                res["nontrivial"].add(h64("c" + s))
            if len(res["samples"]) < 2 and len(s) >= 3 and "\\" in s:
                res["samples"].append({"sub": "convert", "s": s, "cfg": list(cfgs[7])})
    elif kind == "re":
        subjects = list(strings(SUBJ, b["re_subj_len"]))
        for idx, s in enumerate(strings(A_RE, b["re_pat_len"])):
            if idx % NSH == k:
                sub_regex(res, s, subjects)
    else:
        for name in strings(FIELD_A, b["field_len"]):
            for fs in field_settings():
                sub_field(res, name, fs)
            if any(c in name for c in " '\\"):
                res["nontrivial"].add(h64("f" + name))
    return res


def replay(case):
    res = new_result()
    sub = case["sub"]
    if sub in ("parse", "plain", "slice", "len"):
        sub_parse_plain_slice(res, case["s"])
    elif sub == "convert":
        sub_convert(res, case["s"], tuple(case["cfg"]))
    elif sub == "field":
        sub_field(res, case["name"], tuple(case["fs"]))
    elif sub == "regex":
        sub_regex(res, case["s"], list(strings(SUBJ, 4)))
    return res["violations"]
