"""C11 - a filter narrows exactly the rules it targets and nothing else."""
import copy
import itertools
import random
import re

from mc import formula as F
from mc import qparse as Q
from mc import refrule as RR
from mc import trees as T
from mc import vbackend as V
from mc.runner import add_violation, h64, new_result

PROPERTY = "C11"
LEVEL = "exploration"
RULE = (
    "three completely enumerated sub-products: (N) every pair (rule detection-name set, filter detection-name set) with "
    "forced overlaps, keyword-like / digit / underscore names x every rule condition tree and filter condition tree up to "
    "the operator bound over names and selectors x one or two stacked filters x load path {one stream, merged collections} "
    "x random seeds and a forced-identical draw; (L) all 8x8 pairs of log-source attribute subsets x equal/different values; "
    "(R) rule lists {id, name, any, [], non-matching, id of a correlation rule} x target kind. Oracle: the filter applies "
    "<=> detection rule AND log source covered AND listed-or-any; then every query == (rule formula) AND (filter formula over "
    "the filter's own detections) by truth table after decoding; otherwise the queries equal those of the unfiltered collection. "
    "non-trivial = case in which the filter applies."
)
RULE += (" " + 'L also with a definition text on either log source; R with other valid UUID spellings; (E) one filter that cannot be applied targets the rule at each position of collections of 1-4 rules (errors collected): every other rule converts exactly as without that filter.')
ASSUMPTIONS = ["each detection is one opaque atom; rule-side and filter-side detections use disjoint field names", "decoder mc/qparse.py with K0"]
K = V.K()
BOUNDS = {"quick": dict(ops=1), "thorough": dict(ops="1 on both sides for every name set; 2 on one side at a time for the first rule name set x 4 filter name sets")}
RNAMES = [["sel", "flt"], ["sel", "sel_a", "flt"], ["sel", "_u", "flt_a"]]
FNAMES = [["x", "y"], ["flt", "flt_a"], ["sel", "x_a"], ["x1", "y-2"], ["1x", "y"], ["_x", "y"], ["Not", "y"], ["not_x", "y"], ["Them", "y"], ["x", "x_"]]
RSEL = [("s", "1 of", "them"), ("s", "all of", "sel*"), ("s", "1 of", "_*"), ("s", "1 of", "*")]
FSEL = [("s", "1 of", "them"), ("s", "all of", "them"), ("s", "1 of", "flt*"), ("s", "1 of", "x*"), ("s", "all of", "*_a"), ("s", "1 of", "*")]
RID = "7a000000-0000-4000-8000-00000000000"


def bounds(tier):
    return dict(BOUNDS[tier], rule_name_sets=RNAMES, filter_name_sets=FNAMES, rule_selectors=[RR.leaf_text(s) for s in RSEL], filter_selectors=[RR.leaf_text(s) for s in FSEL])


def dets(names, side):
    return {n: {f"{side}_{re.sub('[^a-zA-Z0-9]', '_', n)}_{i}": "v"} for i, n in enumerate(names)}


def rule_doc(names, cond_text, logsource=None, n=1):
    d = {"title": f"rule{n}", "id": RID + str(n), "name": f"rule_{n}", "logsource": logsource or {"category": "c", "product": "p"}}
    d["detection"] = dict(dets(names, "r"), condition=cond_text)
    return d


def filter_doc(names, cond_text, rules="any", logsource=None, n=1):
    d = {"title": f"filter{n}", "logsource": logsource or {"category": "c"}}
    d["filter"] = dict(dets(names, f"f{n}"), rules=rules, condition=cond_text)
    return d


def trees_for(names, sels, ops):
    leaves = [("n", n) for n in names] + [s for s in sels if RR.selector_matches(s[2], names)]
    return list(T.trees_upto(ops, leaves))


def convert(docs, merged=False):
    from sigma.collection import SigmaCollection

    docs = copy.deepcopy(docs)
    if merged:
        rules = [d for d in docs if "filter" not in d]
        flts = [d for d in docs if "filter" in d]
        coll = SigmaCollection.merge([SigmaCollection.from_dicts(rules), SigmaCollection.from_dicts(flts)])
    else:
        coll = SigmaCollection.from_dicts(docs)
    b = V.make_backend_class(K)()
    b.init_processing_pipeline()
    out = {}
    for r in coll.rules:
        from sigma.rule import SigmaRule

        if isinstance(r, SigmaRule):
            out[r.title] = b.convert_rule(r)
    return out


def name_class(names):
    c = []
    for n in names:
        if n[0].isdigit():
            c.append("digit-first")
        elif n.startswith("_"):
            c.append("underscore-first")
        elif n.lower() in ("not", "and", "or", "all", "any", "of", "1", "them") and n != n.lower():
            c.append("keyword-in-other-case")
    return sorted(set(c))


def judge_N(res, rnames, rtree, filters, merged, draw, style="min"):
    """filters: list of (names, tree); all apply (rules: any, log source covered)"""
    from sigma.exceptions import SigmaError

    rdoc = rule_doc(rnames, RR.condition_text(rtree, style))
    fdocs = [filter_doc(fn, RR.condition_text(ft, style), n=i + 1) for i, (fn, ft) in enumerate(filters)]
    case = {"sub": "N", "rule": rdoc, "filters": fdocs, "merged": merged, "draw": draw, "style": style}
    res["evaluations"] += 1
    res["nontrivial"].add(h64(case))
    for fn, ft in filters:
        if any(n.startswith("_") for n in fn) and any(l[0] == "s" for l in T.leaves_of(ft)):
            return  # selectors over underscore-prefixed names inside a filter: not defined by the statement
    ref = RR.condition_formula(rtree, rdoc["detection"], {})
    for i, (fn, ft) in enumerate(filters):
        try:
            ff = RR.condition_formula(ft, {k: v for k, v in fdocs[i]["filter"].items() if k != "rules"}, {})
        except RR.RefUnsupported:
            return
        ref = ("and", (ref, ff))
    orig = random.choices
    if draw == "collide":
        random.choices = lambda population, *a, k=1, **kw: ["a"] * k
    else:
        random.seed(draw)
    try:
        try:
            out = convert([rdoc] + fdocs, merged)
        finally:
            random.choices = orig
    except SigmaError as e:
        cls = name_class([n for fn, _ in filters for n in fn])
        sel_ = "+".join(sorted({f"filter-name:{c}" for c in cls})) or "plain-names"
        add_violation(res, f"N:sigma-error:{type(e).__name__}:{sel_}", case, F.show(ref)[:300], str(e)[:200])
        return
    except Exception as e:
        add_violation(res, f"N:crash:{type(e).__name__}", case, F.show(ref)[:300], repr(e)[:200])
        return
    qs = out.get("rule1", [])
    if len(qs) != 1:
        add_violation(res, "N:query-count", case, 1, qs)
        return
    try:
        got = Q.qparse(qs[0], K)
    except Q.QParseError as e:
        add_violation(res, "N:query-not-in-grammar", case, F.show(ref)[:300], {"query": qs[0], "error": str(e)[:150]})
        return
    try:
        eq, cex = F.equivalent(ref, got)
    except F.TooManyAtoms:
        return
    res["outcomes"].add(h64(F.show(got)[:80]))
    if re.search(r"_filt_[a-z]{10}", qs[0]):
        add_violation(res, "N:internal-prefix-in-query", case, "no _filt_ identifier", qs[0])
    if not eq:
        # mechanism: which side captured which
        ra = {a for a in F.atoms(got)}
        rule_sel_underscore = any(l[0] == "s" and l[2].startswith("_") for l in T.leaves_of(rtree))
        cls = name_class([n for fn, _ in filters for n in fn])
        if rule_sel_underscore:
            mech = "rule-selector-with-underscore-pattern-captures-filter-detections"
        elif len(filters) > 1 and any(l[0] == "s" for _, ft in filters for l in T.leaves_of(ft)) and draw == "collide":
            mech = "stacked-filters-same-prefix"
        elif cls:
            mech = "filter-name:" + "+".join(cls)
        else:
            mech = "unexplained"
        add_violation(res, f"N:not-equivalent:{mech}", case, F.show(ref)[:400], {"query": qs[0], "cex": cex})


def covered(rule_ls, filter_ls):
    return all(filter_ls.get(k) is None or filter_ls.get(k) == rule_ls.get(k) for k in ("category", "product", "service"))


def judge_applies(res, sub, rdocs, fdoc, expect_applies, label):
    from sigma.exceptions import SigmaError

    case = {"sub": sub, "rules": rdocs, "filter": fdoc, "label": label}
    res["evaluations"] += 1
    try:
        base = convert(rdocs)
        out = convert(rdocs + [fdoc])
    except SigmaError as e:
        add_violation(res, f"{sub}:sigma-error:{type(e).__name__}", case, "conversion", str(e)[:200])
        return
    except Exception as e:
        add_violation(res, f"{sub}:crash:{type(e).__name__}", case, "conversion", repr(e)[:200])
        return
    for title, exp_app in expect_applies.items():
        changed = out.get(title) != base.get(title)
        res["outcomes"].add(h64([sub, changed]))
        if exp_app:
            res["nontrivial"].add(h64([case, title]))
        if changed != exp_app:
            add_violation(res, f"{sub}:{'filter-not-applied' if exp_app else 'filter-applied-to-untargeted-rule'}:{label.split('/')[0]}", dict(case, title=title), exp_app, {"base": base.get(title), "filtered": out.get(title)})
        elif changed:
            # applied: meaning must be base AND filter
            if len(out[title]) != len(base[title]):
                add_violation(res, f"{sub}:query-count-changed-by-filter", dict(case, title=title), len(base[title]), out[title])
                continue
            for qi in range(len(out[title])):  # every condition of the rule carries the filter
                try:
                    got = Q.qparse(out[title][qi], K)
                    b = Q.qparse(base[title][qi], K)
                    ff = RR.condition_formula(("not", ("leaf", ("n", "flt"))), {k: v for k, v in fdoc["filter"].items() if k != "rules"}, {})
                    eq, cex = F.equivalent(("and", (b, ff)), got)
                    if not eq:
                        add_violation(res, f"{sub}:applied-but-not-equivalent" + (":later-condition" if qi else ""), dict(case, title=title, condition_index=qi), "base AND filter", {"query": out[title][qi], "cex": cex})
                        break
                except Q.QParseError as e:
                    add_violation(res, f"{sub}:query-not-in-grammar", dict(case, title=title), "parsable", str(e)[:150])
                    break


def judge_failing_filter(res, pos, nrules, via):
    """(E) a filter that cannot be applied (its condition names a detection it does not define) targets only the rule at
    position pos; errors are collected: every OTHER rule is still there and converts exactly as without the filter"""
    from sigma.collection import SigmaCollection
    from sigma.rule import SigmaRule

    rdocs = [rule_doc(["sel"], "sel", logsource={"category": "c", "product": ("target" if i == pos else "p")}, n=i + 1) for i in range(nrules)]
    good = filter_doc(["flt"], "not flt", logsource={"product": "p"}, n=1)
    bad = filter_doc(["flt"], "not nosuch", logsource={"product": "target"}, n=2)
    case = {"sub": "E", "position": pos, "rules": nrules, "via": via}
    res["evaluations"] += 1
    try:
        expected = convert(rdocs + [good])
        docs = copy.deepcopy(rdocs + [good, bad] if via != "bad-first" else [bad] + rdocs + [good])
        coll = SigmaCollection.from_dicts(docs, collect_errors=True)
        b = V.make_backend_class(K)(collect_errors=True)
        b.init_processing_pipeline()
        out = {r.title: b.convert_rule(r) for r in coll.rules if isinstance(r, SigmaRule)}
    except Exception as e:
        add_violation(res, f"E:exception:{type(e).__name__}", case, "collected", repr(e)[:200])
        return
    res["nontrivial"].add(h64(case))
    res["outcomes"].add(h64(["E", sorted(out)]))
    if not coll.errors:
        add_violation(res, "E:failing-filter-not-reported", case, "an error", [])
    others = {t: q for t, q in expected.items() if t != f"rule{pos + 1}"}
    got = {t: q for t, q in out.items() if t != f"rule{pos + 1}"}
    if got != others:
        add_violation(res, "E:other-rules-changed-by-a-failing-filter", case, others, got)


def judge_with_pipeline(res, nrules, ptype, collect_bad):
    """(P) several filtered rules converted through a pipeline: every rule's query equals the query it gets when it is the only
    rule of the collection (same filter, same pipeline); optionally the rules carry a collected, harmless load error"""
    from sigma.collection import SigmaCollection
    from sigma.processing.pipeline import ProcessingPipeline
    from sigma.rule import SigmaRule

    pipes = {"prefix": [{"type": "field_name_prefix", "prefix": "p."}], "suffix+upper": [{"type": "field_name_suffix", "suffix": "_s"}, {"type": "case", "method": "upper"}],
             "replace": [{"type": "replace_string", "regex": "^", "replacement": "x"}]}
    rdocs = [rule_doc(["sel"], "sel", n=i + 1) for i in range(nrules)]
    if collect_bad:
        for d in rdocs:
            d["level"] = "severe"  # collected as an error, the rule itself is complete
    f1 = filter_doc(["flt"], "not flt", n=1)
    f2 = filter_doc(["a", "b"], "not 1 of them", n=2)
    case = {"sub": "P", "rules": nrules, "pipeline": ptype, "rules_with_collected_error": collect_bad}
    res["evaluations"] += 1

    def conv(docs):
        coll = SigmaCollection.from_dicts(copy.deepcopy(docs), collect_errors=collect_bad)
        b = V.make_backend_class(K)(ProcessingPipeline.from_dict({"name": "p", "priority": 1, "transformations": copy.deepcopy(pipes[ptype])}))
        b.init_processing_pipeline()
        return {r.title: b.convert_rule(r) for r in coll.rules if isinstance(r, SigmaRule)}

    try:
        together = conv(rdocs + [f1, f2])
        alone = {}
        for d in rdocs:
            alone.update(conv([d, f1, f2]))
        unfiltered = conv(rdocs)
    except Exception as e:
        add_violation(res, f"P:exception:{type(e).__name__}", case, "queries", repr(e)[:200])
        return
    res["nontrivial"].add(h64(case))
    res["outcomes"].add(h64(["P", sorted(together)]))
    if together != alone:
        diff = sorted(t for t in alone if together.get(t) != alone[t])
        add_violation(res, "P:filtered-rule-converts-differently-next-to-other-rules", dict(case, titles=diff), {t: alone[t] for t in diff}, {t: together.get(t) for t in diff})
    elif any(together[t] == unfiltered[t] for t in together):
        add_violation(res, "P:filter-not-applied" + (":rules-with-collected-error" if collect_bad else ""), case, "filtered", {t: together[t] for t in together if together[t] == unfiltered[t]})


ATTRS = ["category", "product", "service"]


def space_L():
    subsets = [s for r in range(4) for s in itertools.combinations(ATTRS, r)]
    for rs in subsets:
        if not rs:
            continue
        for fs in subsets:
            if not fs:
                continue
            common = [a for a in fs if a in rs]
            for diff in itertools.product((False, True), repeat=len(common)):
                rls = {a: a[0] + "1" for a in rs}
                fls = {a: a[0] + "1" for a in fs}
                for a, d in zip(common, diff):
                    if d:
                        fls[a] = a[0] + "2"
                yield rls, fls


def space_R():
    corr = {"title": "corr", "id": RID + "9", "name": "corr_x", "correlation": {"type": "event_count", "rules": ["rule_1"], "timespan": "5m", "condition": {"gte": 1}, "generate": True}}
    for rules, targets in [
        ("any", {"rule1": True, "rule2": True}), ([], {"rule1": True, "rule2": True}), ([RID + "1"], {"rule1": True, "rule2": False}),
        (["rule_2"], {"rule1": False, "rule2": True}), ([RID + "1", "rule_2"], {"rule1": True, "rule2": True}), (["nope"], {"rule1": False, "rule2": False}),
        (RID + "2", {"rule1": False, "rule2": True}), ("ANY", {"rule1": True, "rule2": True}), ([RID + "9"], {"rule1": False, "rule2": False}), (["corr_x"], {"rule1": False, "rule2": False}),
        (["rule1"], {"rule1": False, "rule2": False}),  # title is not a reference
        # the same identifier in other valid UUID spellings still names the rule
        ([(RID + "1").upper()], {"rule1": True, "rule2": False}), (["{" + RID + "2}"], {"rule1": False, "rule2": True}),
        ([(RID + "1").replace("-", "")], {"rule1": True, "rule2": False}), (["urn:uuid:" + RID + "2", "nope"], {"rule1": False, "rule2": True}),
        (["None"], {"rule1": False, "rule2": False}),
    ]:
        yield rules, targets, corr


NSH = 48


def space_N(tier):
    if tier == "thorough":
        # deeper trees on one side at a time (both sides at depth 2 would be 1.2e8 cases)
        rn = RNAMES[0]
        for fn in FNAMES[:4]:
            for rt in trees_for(rn, RSEL, 2):
                if T.count_ops(rt) == 2:
                    for ft in trees_for(fn, FSEL, 1):
                        yield rn, rt, [(fn, ft)], False, 0
            for rt in trees_for(rn, RSEL, 1):
                for ft in trees_for(fn, FSEL, 2):
                    if T.count_ops(ft) == 2:
                        yield rn, rt, [(fn, ft)], False, 0
    ops = 1
    for rn in RNAMES:
        rtrees = trees_for(rn, RSEL, ops)
        for fn in FNAMES:
            ftrees = trees_for(fn, FSEL, ops)
            hazard_only = tier == "quick" and fn in FNAMES[4:]  # name-hazard sets: full filter trees, few rule trees
            for rt in (rtrees[: len(rn) + 3] if hazard_only else rtrees):
                for ft in ftrees:
                    yield rn, rt, [(fn, ft)], False, 0
                    if rn is RNAMES[0] and fn is FNAMES[0] and (T.count_ops(rt) or T.count_ops(ft)):
                        for style in ("args", "full"):
                            yield rn, rt, [(fn, ft)], False, 0, style
            # merged path / other draws on a reduced set of trees
            for rt in rtrees[: len(rn) + 2]:
                for ft in ftrees:
                    yield rn, rt, [(fn, ft)], True, 1
                    yield rn, rt, [(fn, ft)], False, "collide"
    # two stacked filters
    for rn in RNAMES[:2]:
        rt = ("leaf", ("n", rn[0]))
        for fn1, fn2 in itertools.product(FNAMES[:4], repeat=2):
            for ft1 in trees_for(fn1, FSEL, 1)[:12]:
                for ft2 in trees_for(fn2, FSEL, 1)[:12]:
                    for draw in (0, "collide"):
                        yield rn, rt, [(fn1, ft1), (fn2, ft2)], False, draw


def plan(tier, seed):
    return [("N", i) for i in range(NSH)] + [("L", 0), ("R", 0)]


def run_shard(shard, tier, seed):
    res = new_result()
    sub, idx = shard
    if sub == "N":
        for n, item in enumerate(space_N(tier)):
            rn, rt, filters, merged, draw = item[:5]
            style = item[5] if len(item) > 5 else "min"
            if n % NSH == idx:
                judge_N(res, rn, rt, filters, merged, draw if draw == "collide" else draw + seed, style)
                if len(res["samples"]) < 1 and len(filters) == 2:
                    res["samples"].append({"rule_condition": RR.condition_text(rt), "filter_conditions": [RR.condition_text(ft) for _, ft in filters], "filter_names": [fn for fn, _ in filters]})
    elif sub == "L":
        for rls, fls in space_L():
            r = rule_doc(["sel"], "sel", logsource=rls)
            f = filter_doc(["flt"], "not flt", logsource=fls)
            judge_applies(res, "L", [r], f, {"rule1": covered(rls, fls)}, f"logsource/{sorted(rls)}/{sorted(fls)}")
            # the free-text definition is no part of the coverage relation
            for rdef, fdef in ((None, "filter text"), ("rule text", None), ("rule text", "filter text")):
                r2 = rule_doc(["sel"], "sel", logsource=dict(rls, **({"definition": rdef} if rdef else {})))
                f2 = filter_doc(["flt"], "not flt", logsource=dict(fls, **({"definition": fdef} if fdef else {})))
                judge_applies(res, "L", [r2], f2, {"rule1": covered(rls, fls)}, f"logsource+definition/{sorted(rls)}/{sorted(fls)}/{bool(rdef)}{bool(fdef)}")
        res["samples"].append({"sub": "L", "rule_logsource": {"category": "c1", "product": "p1"}, "filter_logsource": {"product": "p2"}})
    else:
        for rules, targets, corr in space_R():
            r1 = rule_doc(["sel"], "sel", n=1)
            r2 = rule_doc(["sel"], "sel", n=2)
            f = filter_doc(["flt"], "not flt", rules=rules)
            for extra in ([], [corr]):
                judge_applies(res, "R", [r1, r2] + extra, f, targets, f"rules/{rules!r}/{'with-corr' if extra else 'plain'}")
        # rules with several conditions: the filter goes into each of them
        for conds in (["sel", "sel2"], ["sel and not sel2", "sel2", "1 of sel*"], ["sel", "sel", "not sel2"]):
            for rules in ("any", [RID + "1"]):
                rm = rule_doc(["sel", "sel2"], conds, n=1)
                r2 = rule_doc(["sel"], "sel", n=2)
                f = filter_doc(["flt"], "not flt", rules=rules)
                judge_applies(res, "R", [rm, r2], f, {"rule1": True, "rule2": rules == "any"}, f"multi-condition/{len(conds)}/{rules!r}")
        for nrules in (1, 2, 3):
            for ptype in ("prefix", "suffix+upper", "replace"):
                for collect_bad in (False, True):
                    judge_with_pipeline(res, nrules, ptype, collect_bad)
        for nrules in (1, 2, 3, 4):
            for pos in range(nrules):
                for via in ("bad-last", "bad-first"):
                    judge_failing_filter(res, pos, nrules, via)
        res["samples"].append({"sub": "R", "rules": [RID + "1"]})
    return res


def replay(case):
    res = new_result()
    if case["sub"] == "N":
        rd = case["rule"]
        rn = [n for n in rd["detection"] if n != "condition"]
        style = case.get("style", "min")
        def find(names, sels, text):
            for t in trees_for(names, sels, 2):
                if RR.condition_text(t, style) == text:
                    return t
        rt = find(rn, RSEL, rd["detection"]["condition"])
        filters = []
        for fd in case["filters"]:
            fn = [n for n in fd["filter"] if n not in ("condition", "rules")]
            filters.append((fn, find(fn, FSEL, fd["filter"]["condition"])))
        judge_N(res, rn, rt, filters, case["merged"], case["draw"], style)
    else:
        r = run_shard((case["sub"], 0), "quick", 0)
        return [v for v in r["violations"] if v["case"].get("label") == case.get("label")]
    return res["violations"]
