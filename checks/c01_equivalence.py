"""C01 - converted query is logically equivalent to the Sigma rule."""
import itertools

from mc import formula as F
from mc import qparse as Q
from mc import refrule as RR
from mc import refsigma as R
from mc import trees as T
from mc import vbackend as V
from mc.runner import add_violation, h64, new_result

PROPERTY = "C01"
LEVEL = "exploration"
RULE = (
    "three completely enumerated sub-products (the full product is not claimed): (A) all condition trees up to the operator "
    "bound over detection names and selectors x precedence permutations x parenthesize x token styles x NOT mode; (B) a "
    "catalogue of detection shapes x condition contexts x in-list knobs x precedence x NOT mode; (C) every value kind / "
    "modifier result x contexts x subsets of the optional templates x allow_special x NOT mode. Each emitted query is decoded "
    "with the configuration's own grammar (mc/qparse) and compared with the reference formula of the rule dict (mc/refrule) "
    "under all 2^n truth assignments of the atoms. non-trivial = the reference formula has >= 2 atoms or a NOT; distinct by "
    "(rule, configuration)."
)
ASSUMPTIONS = [
    "reference semantics of detections/modifiers/conditions in mc/refsigma.py, mc/refrule.py (independent of sigma)",
    "atoms are compared after decoding (field, match kind, decoded value); atoms are treated as independent booleans",
    "target language = grammar of mc/qparse.py parameterised by the configuration's precedence and tokens",
]
PRECS = list(itertools.permutations(("NOT", "AND", "OR")))
BOUNDS = {"quick": dict(kA_full=2, kA_small=3, templates="each-absent/each-alone/all/none"),
          "thorough": dict(kA_full=3, kA_small=4, templates="all 2^10 subsets")}


def bounds(tier):
    b = dict(BOUNDS[tier])
    b.update(precedences=len(PRECS), shapes=len(shapes()), value_kinds=len(value_kinds()), contexts_B=len(CONTEXTS_B))
    return b


# ------------------------------------------------------------------------------------------------
def cfgs_A():
    out = []
    for p in PRECS:
        for par in (False, True):
            for ne in (False, True):
                out.append(V.K(precedence=p, parenthesize=par, not_eq=ne))
        for tok in ("symbols", "implicit_and"):
            out.append(V.K(precedence=p, tokens=tok))
    return out


def cfgs_B():
    out = []
    for oi, ai, iw in itertools.product((False, True), repeat=3):
        for p in PRECS:
            for ne in (False, True):
                out.append(V.K(precedence=p, not_eq=ne, or_in=oi, and_in=ai, in_wild=iw))
    allt = frozenset(V.ALL_TEMPLATES)
    for oi, ai, iw in itertools.product((False, True), repeat=3):  # the in-list knobs also without native CIDR (expanded patterns)
        for ne in (False, True):
            out.append(V.K(not_eq=ne, or_in=oi, and_in=ai, in_wild=iw, templates=allt - {"cidr"}))
    for p in PRECS:
        for par in (False, True):
            out.append(V.K(precedence=p, parenthesize=par, templates=allt - {"notexists"}))
            out.append(V.K(precedence=p, parenthesize=par, templates=allt - {"cidr"}))
            out.append(V.K(precedence=p, parenthesize=par, templates=allt - {"cidr"}, or_in=True, in_wild=True))
            out.append(V.K(precedence=p, parenthesize=par, tokens="symbols"))
            out.append(V.K(precedence=p, parenthesize=par, tokens="implicit_and"))
    return out


def template_subsets(tier):
    allt = V.ALL_TEMPLATES
    if tier == "thorough":
        for r in range(len(allt) + 1):
            for c in itertools.combinations(allt, r):
                yield frozenset(c)
    else:
        seen = []
        for s in [frozenset(allt), frozenset()] + [frozenset(allt) - {t} for t in allt] + [frozenset({t}) for t in allt]:
            if s not in seen:
                seen.append(s)
                yield s


def cfgs_C(tier):
    out = []
    for ts in template_subsets(tier):
        for sp in (False, True):
            for ne in (False, True):
                out.append(V.K(templates=ts, allow_special=sp, not_eq=ne))
    # quoting variants with all templates
    for fq, sq in (("pattern", "always"), ("always", "pattern"), ("pattern", "pattern")):
        out.append(V.K(field_quote=fq, str_quote=sq))
    out.append(V.K(re_flag_prefix=True))
    return out


# ------------------------------------------------------------------------------------------------
def shapes():
    """(name, detection definition)"""
    return [
        ("map1", {"f1": "v1"}),
        ("map2", {"f1": "v1", "f2": "v2"}),
        ("map3", {"f1": "v1", "f2": "v2", "f 3": "v3"}),
        ("map2-same-field-mods", {"f1|startswith": "v1", "f1|endswith": "v2"}),
        ("listmaps", [{"f1": "v1"}, {"f2": "v2"}]),
        ("listmaps-multi", [{"f1": "v1", "f2": "v2"}, {"f1": "v3"}]),
        ("keywords", ["k1", "k2"]),
        ("keywords-num", ["k1", 5]),
        ("vals2", {"f1": ["v1", "v2"]}),
        ("vals3", {"f1": ["v1", "v2", "v3"]}),
        ("vals-num", {"f1": [1, 2]}),
        ("vals-mixed", {"f1": ["v1", 5]}),
        ("vals-wild", {"f1": ["v*", "v2"]}),
        ("vals-cased", {"f1|cased": ["v1", "V2"]}),
        ("vals-cased-mixed", {"f1|cased": ["v1", "V2"], "f1": "v3"}),
        ("all2", {"f1|all": ["v1", "v2"]}),
        ("all-contains", {"f1|contains|all": ["a", "b"]}),
        ("neq1", {"f1|neq": "v1"}),
        ("neq-list", {"f1|neq": ["v1", "v2"]}),
        ("neq-all", {"f1|all|neq": ["v1", "v2"]}),
        ("nested", [{"f1": ["v1", "v2"]}, {"f1": "v3", "f2": ["v4", "v5"]}]),
        ("windash-list", {"f1|windash": ["-a", "b"]}),
        ("windash-all", {"f1|windash|contains|all": ["-a", "-b"]}),
        ("b64offset-list", {"f1|base64offset|contains": ["ab", "cd"]}),
        ("null-in-list", {"f1": ["v1", None]}),
        ("empty-list", {"f1": []}),
        ("exists-false-and", {"f1|exists": False, "f2": "v2"}),
        ("exists-true-and", {"f1|exists": True, "f2": "v2"}),
        ("re-list", {"f1|re": ["a.*", "b"]}),
        ("cidr-list", {"f1|cidr": ["10.0.0.0/8", "192.168.0.0/16"]}),
        ("cidr-and", {"f1|cidr": "10.0.0.0/15", "f2": "v2"}),
        ("single-in-list", {"f1": ["v1"]}),
        ("kw-windash", {"|windash": "-a"}),
        ("kw-b64offset", {"|base64offset": "ab"}),
        ("kw-windash-list", {"|windash": ["-a", "b"], "f2": "v2"}),
    ]


X, O, O2 = ("leaf", ("n", "x")), ("leaf", ("n", "o")), ("leaf", ("n", "o2"))
CONTEXTS_B = [
    ("bare", X),
    ("not", ("not", X)),
    ("and-l", ("and", X, O)),
    ("and-r", ("and", O, X)),
    ("or-l", ("or", X, O)),
    ("or-r", ("or", O, X)),
    ("not-or", ("not", ("or", X, O))),
    ("not-and", ("not", ("and", X, O))),
    ("and-under-or-under-not", ("not", ("or", ("and", X, O), O2))),
    ("or-under-and", ("and", ("or", X, O), O2)),
    ("notnot", ("not", ("not", X))),
    ("1of", ("leaf", ("s", "1 of", "*"))),
    ("allof", ("leaf", ("s", "all of", "*"))),
    ("not-1of", ("not", ("leaf", ("s", "1 of", "*")))),
]


def value_kinds():
    """(name, key, value, list-capable)"""
    vk = []
    for n, v in [("plain", "abc"), ("pre", "abc*"), ("suf", "*abc"), ("both", "*abc*"), ("inner", "a*c"), ("single", "ab?"),
                 ("pre-inner", "a*c*"), ("suf-inner", "*a?c"), ("both-inner", "*a*c*"), ("empty", ""), ("star", "*"), ("escaped", "a\\*c"),
                 ("quote", 'a"c'), ("backslash", "a\\c"), ("space", "a c")]:
        vk.append((n, "f1", v, True))
        vk.append(("cased-" + n, "f1|cased", v, True))
    vk += [
        ("num", "f1", 5, True), ("float", "f1", 1.5, True), ("neg", "f1", -1, True), ("true", "f1", True, False), ("false", "f1", False, False),
        ("null", "f1", None, False), ("exists-t", "f1|exists", True, False), ("exists-f", "f1|exists", False, False),
        ("re", "f1|re", "a.*b", True), ("re-i", "f1|re|i", "a.*b", True), ("re-ims", "f1|re|i|m|s", "a/b\\\\c", True), ("re-ms", "f1|re|m|s", "^a$", True),
        ("cidr8", "f1|cidr", "10.0.0.0/8", True), ("cidr15", "f1|cidr", "10.0.0.0/15", True), ("cidr22", "f1|cidr", "10.1.4.0/22", True), ("cidr32", "f1|cidr", "10.1.2.3/32", True),
        ("cidr6", "f1|cidr", "fe80::/10", True), ("cidr-qfield", "f 3|cidr", "10.0.0.0/8", False),
        ("lt", "f1|lt", 5, True), ("lte", "f1|lte", 5, True), ("gt", "f1|gt", 5, True), ("gte", "f1|gte", 1.5, True),
        ("fieldref", "f1|fieldref", "f2", True), ("fieldref-sw", "f1|fieldref|startswith", "f2", True),
        ("fieldref-ew", "f1|fieldref|endswith", "f2", True), ("fieldref-ct", "f1|fieldref|contains", "f 3", True),
        ("ts-minute", "f1|minute", 5, True), ("ts-year-gt", "f1|year|gt", 2020, True),
        ("kw", None, "abc", True), ("kw-wild", None, "a*c", True), ("kw-num", None, 5, True), ("kw-re", "|re", "a.*b", True),
        ("windash", "f1|windash", "-a", True), ("windash-ct", "f1|windash|contains", "-a -b", True),
        ("b64", "f1|base64", "abc", True), ("b64off", "f1|base64offset|contains", "abc", True), ("wide-b64off", "f1|wide|base64offset|contains", "ab", True),
        ("contains", "f1|contains", "abc", True), ("startswith", "f1|startswith", "abc", True), ("endswith", "f1|endswith", "abc", True),
        ("cased-sw", "f1|cased|startswith", "aBc", True), ("cased-ct", "f1|cased|contains", "aBc", True), ("cased-ew", "f1|cased|endswith", "aBc", True),
        ("sw-cased", "f1|startswith|cased", "aBc", True), ("ct-cased", "f1|contains|cased", "a*c", True), ("cased-windash", "f1|cased|windash|contains", "-aB", True),
        ("contains-wild", "f1|contains", "a*c", True), ("qfield", "f 3", "abc", True), ("qfield-sw", "f 3|startswith", "abc", True),
    ]
    return vk


CONTEXTS_C = ["bare", "not", "orlist", "alllist", "neq"]


def rule_for_kind(kind, ctx):
    name, key, val, listable = kind
    if ctx in ("orlist", "alllist", "neq"):
        if ctx != "neq" and not listable:
            return None
        if key is None and ctx != "orlist":
            return None
        other = {str: "zz", int: 7, float: 7, bool: None}.get(type(val), "zz")
        if key and ("cidr" in key):
            other = "192.168.0.0/16"
        if key and "fieldref" in key:
            other = "f2"
        if key and "|re" in key or key == "|re":
            other = "z+"
        if ctx == "orlist":
            d = [val, other] if key is None else {key: [val, other]}
        elif ctx == "alllist":
            d = {key + "|all": [val, other]}
        else:
            if "exists" in (key or "") or key is None:
                return None
            d = {key + "|neq": val}
        tree = X
    else:
        d = [val] if key is None else {key: val}
        tree = X if ctx == "bare" else ("not", X)
    return {"x": d}, tree


# ------------------------------------------------------------------------------------------------
def features(f, k):
    """mechanisms of the known not-equals-mode defects present in the reference formula"""
    out = set()
    negt = {"str": True, "re": True, "cidr": "cidr" in k["templates"]}

    def rec(g, under_not):
        if g[0] == "not":
            inner = g[1]
            if inner[0] in ("and", "or"):
                out.add("not-over-group")
            elif inner[0] == "not":
                out.add("nested-not")
            elif inner[0] == "atom":
                a = inner[1]
                kind = a[1]
                has = negt.get(kind, False) and a[0] is not None  # keyword (unbound) values have no negated template
                if kind == "str":
                    cased, parts = a[2], a[3]
                    # negated templates exist for eq/sw/ew/ct of uncased strings and for cased sw/ew/ct
                    if cased:
                        has = False if not _cased_shortcut(parts, k) else True
                    elif k["templates"] & {"wm"} and any(p in (R.MULTI, R.SINGLE) for p in parts) and not _uncased_shortcut(parts, k):
                        has = False
                if not has:
                    out.add("not-over-leaf-without-negated-template")
            rec(inner, True)
        elif g[0] in ("and", "or"):
            if under_not:
                out.add("group-below-not")
            for x in g[1]:
                rec(x, under_not)

    rec(f, False)
    return out


def _uncased_shortcut(parts, k):
    t, sp = k["templates"], k["allow_special"]
    inner_special = lambda ps: any(p in (R.MULTI, R.SINGLE) for p in ps)
    if "sw" in t and parts and parts[-1] == R.MULTI and (sp or not inner_special(parts[:-1])):
        return True
    if "ew" in t and parts and parts[0] == R.MULTI and (sp or not inner_special(parts[1:])):
        return True
    if "ct" in t and len(parts) >= 1 and parts[0] == R.MULTI and parts[-1] == R.MULTI and (sp or not inner_special(parts[1:-1])):
        return True
    return False


def _cased_shortcut(parts, k):
    t, sp = k["templates"], k["allow_special"]
    inner_special = lambda ps: any(p in (R.MULTI, R.SINGLE) for p in ps)
    if "cssw" in t and parts and parts[-1] == R.MULTI and (sp or not inner_special(parts[:-1])):
        return True
    if "csew" in t and parts and parts[0] == R.MULTI and (sp or not inner_special(parts[1:])):
        return True
    if "csct" in t and len(parts) >= 1 and parts[0] == R.MULTI and parts[-1] == R.MULTI and (sp or not inner_special(parts[1:-1])):
        return True
    return False


def has_cased(f):
    return any(a[1] == "str" and a[2] for a in F.atoms(f))


def diffkeys(k):
    return sorted(a for a in k if k[a] != V.K0[a] and a != "templates") + (["templates-" + ",".join(sorted(frozenset(V.ALL_TEMPLATES) - k["templates"]))] if k["templates"] != V.K0["templates"] else [])


def smallest_offender(ref, got):
    """kind of the smallest sub-term of the reference whose atoms are involved in the disagreement"""
    ra, ga = F.atoms(ref), F.atoms(got)
    if ra != ga:
        miss = sorted(ra - ga, key=repr)
        extra = sorted(ga - ra, key=repr)
        if miss and extra and len(miss) == len(extra):
            kinds = sorted({f"{m[1]}->{e[1]}" + ("(field)" if m[0] != e[0] else "") + ("(case)" if m[1] == "str" and e[1] == "str" and m[2] != e[2] else "") for m, e in zip(miss, extra)})
            return "atom-changed:" + ",".join(kinds)
        if miss and not extra:
            return "atom-missing:" + ",".join(sorted({m[1] for m in miss}))
        if extra and not miss:
            return "atom-extra:" + ",".join(sorted({e[1] for e in extra}))
        return "atoms-differ"
    return "structure"


def judge(res, sub, dets, trees, k, rule_obj=None, label=None):
    """convert a rule (one query per condition tree) under configuration k and compare"""
    from sigma.exceptions import SigmaError
    from sigma.rule import SigmaRule

    conds = [RR.condition_text(t) for t in trees]
    d = dict(dets)
    d["condition"] = conds if len(conds) > 1 else conds[0]
    ruled = {"title": "t", "logsource": {"category": "c"}, "detection": d}
    case = {"sub": sub, "rule": ruled, "k": {a: (sorted(b) if isinstance(b, frozenset) else b) for a, b in k.items()}, "label": label}
    opts = {"native_cidr": "cidr" in k["templates"]}
    try:
        refs = [RR.condition_formula(t, dets, opts) for t in trees]
    except RR.RefUnsupported:
        return None
    res["evaluations"] += 1
    cls = V.make_backend_class(k)
    try:
        rule = rule_obj or SigmaRule.from_dict(ruled)
        qs = cls().convert_rule(rule)
    except (SigmaError, NotImplementedError) as e:
        res["outcomes"].add(h64("exc:" + type(e).__name__))
        if any(has_cased(r) for r in refs) and "cs" not in k["templates"]:
            return rule_obj  # documented: case-sensitive matching not supported by this configuration
        add_violation(res, f"{sub}:unexpected-exception:{type(e).__name__}", case, "queries", repr(e)[:300])
        return None
    except Exception as e:
        add_violation(res, f"{sub}:crash:{type(e).__name__}", case, "queries", repr(e)[:300])
        return None
    bad = V.class_attrs_intact(cls)
    if bad:
        add_violation(res, f"{sub}:class-attributes-changed", case, "restored", bad)
    if len(qs) != len(refs):
        add_violation(res, f"{sub}:query-count", case, len(refs), qs)
        return rule
    names = [n for n in dets if n != "condition"]
    for (ref, q), tree in zip(zip(refs, qs), trees):
        nontrivial = len(F.atoms(ref)) >= 2 or "not" in repr(ref)
        if nontrivial:
            res["nontrivial"].add(h64([ruled, case["k"]]))
        try:
            got = Q.qparse(q, k)
        except Q.QParseError as e:
            mech = explain(ref, None, k, (tree, names))
            add_violation(res, f"query-not-in-target-grammar:{mech}", case, F.show(ref), {"query": q, "error": str(e)[:200]})
            continue
        try:
            eq, cex = F.equivalent(ref, got)
        except F.TooManyAtoms:
            continue
        res["outcomes"].add(h64(q if len(q) < 40 else F.show(got)[:60]))
        if not eq:
            mech = explain(ref, got, k, (tree, names))
            add_violation(res, f"not-equivalent:{mech}", case, F.show(ref), {"query": q, "decoded": F.show(got), "counterexample": cex})
    return rule


def shared_detection_under_not(tree_and_names):
    """a detection referenced more than once in one condition, at least once below a NOT (parent links are shared)"""
    tree, names = tree_and_names
    refs = []  # (name, under_not)

    def rec(t, un):
        if t[0] == "leaf":
            l = t[1]
            for n in ([l[1]] if l[0] == "n" else RR.selector_matches(l[2], names)):
                refs.append((n, un))
        elif t[0] == "not":
            rec(t[1], True)
        else:
            rec(t[1], un)
            rec(t[2], un)

    rec(tree, False)
    for n in {r[0] for r in refs}:
        rs = [u for m, u in refs if m == n]
        if len(rs) > 1 and any(rs):
            return True
    return False


def explain(ref, got, k, trees=None):
    import re as _re

    if got is None and "cidr" in k["templates"] and any(a[1] == "cidr" and not _re.match(r"^\w+$", a[0]) for a in F.atoms(ref)):
        return "cidr-native-raw-field"
    if k["not_eq"]:
        fs = features(ref, k)
        for f in ("not-over-group", "nested-not", "not-over-leaf-without-negated-template"):
            if f in fs:
                return "noteq:" + f
        if trees is not None and shared_detection_under_not(trees):
            return "noteq:detection-referenced-twice-once-under-not"
        return "noteq:unexplained:" + (smallest_offender(ref, got) if got is not None else "unparsable")
    if got is None:
        return "unparsable"
    return smallest_offender(ref, got)


# ------------------------------------------------------------------------------------------------
DETS_A = {"s1": {"f1": "v1"}, "s2": {"f2": "v2"}, "s3": {"f 3": "v3"}}
LEAVES_FULL = [("n", "s1"), ("n", "s2"), ("n", "s3"), ("s", "1 of", "s*"), ("s", "all of", "s*")]
LEAVES_SMALL = [("n", "s1"), ("n", "s2"), ("s", "1 of", "s*")]


def space_A(tier):
    b = BOUNDS[tier]
    seen = set()
    for t in itertools.chain(T.trees_upto(b["kA_full"], LEAVES_FULL), T.trees_upto(b["kA_small"], LEAVES_SMALL)):
        if t not in seen:
            seen.add(t)
            yield [t]
    # two conditions per rule: query count and order
    for t1, t2 in itertools.product(list(T.trees_upto(1, LEAVES_SMALL))[:12], repeat=2):
        yield [t1, t2]


NSH = 48


def plan(tier, seed):
    return [("A", i) for i in range(NSH)] + [("B", i) for i in range(8)] + [("C", i) for i in range(16 if tier == "quick" else 64)]


def selftest():
    """decoder inverts a printer for a formula space under every precedence/token style"""
    for k in cfgs_A():
        if k["not_eq"]:
            continue
        tok = {"words": {"and": "AND", "or": "OR", "not": "NOT"}, "symbols": {"and": "&", "or": "|", "not": "!"}, "implicit_and": {"and": "", "or": "OR", "not": "NOT"}}[k["tokens"]]
        for t in T.trees_upto(2, ["a", "b"]):
            txt = T.print_full(t, tok, leaf=lambda x: f'`{x}`="1"').replace("  ", " ")
            got = Q.qparse(txt, k)
            ref = _tree_formula(t)
            assert F.equivalent(ref, got)[0], (txt, k["precedence"])


def _tree_formula(t):
    if t[0] == "leaf":
        return F.a_str(t[1], False, ("1",))
    if t[0] == "not":
        return F.NOT(_tree_formula(t[1]))
    return (t[0], (_tree_formula(t[1]), _tree_formula(t[2])))


def run_shard(shard, tier, seed):
    res = new_result()
    sub, idx = shard
    if sub == "A":
        if idx == 0:
            selftest()
        cfgs = cfgs_A()
        for n, trees in enumerate(space_A(tier)):
            if n % NSH != idx:
                continue
            rule = None
            for k in cfgs:
                rule = judge(res, "A", DETS_A, trees, k, rule_obj=rule)
            if len(res["samples"]) < 2 and T.count_ops(trees[0]) >= 2:
                res["samples"].append({"sub": "A", "condition": RR.condition_text(trees[0]), "configs": len(cfgs)})
    elif sub == "B":
        cfgs = cfgs_B()
        n = 0
        for sname, sdef in shapes():
            for cname, tree in CONTEXTS_B:
                n += 1
                if n % 8 != idx:
                    continue
                dets = {"x": sdef, "o": {"g1": "w1"}, "o2": {"g2": "w2"}}
                if cname in ("1of", "allof", "not-1of"):
                    # an underscore-prefixed detection is never selected by a pattern that does not start with '_'
                    dets = {"x": sdef, "o": {"g1": "w1"}, "_u": {"g9": "w9"}}
                rule = None
                for k in cfgs:
                    rule = judge(res, "B", dets, [tree], k, rule_obj=rule, label=f"{sname}/{cname}")
                if len(res["samples"]) < 2:
                    res["samples"].append({"sub": "B", "shape": sname, "context": cname, "detection": sdef})
    else:
        cfgs = cfgs_C(tier)
        nsh = 16 if tier == "quick" else 64
        for n, k in enumerate(cfgs):
            if n % nsh != idx:
                continue
            for kind in value_kinds():
                for ctx in CONTEXTS_C:
                    r = rule_for_kind(kind, ctx)
                    if r is None:
                        continue
                    dets, tree = r
                    judge(res, "C", dets, [tree], k, label=f"{kind[0]}/{ctx}")
            if len(res["samples"]) < 1:
                res["samples"].append({"sub": "C", "templates": sorted(k["templates"]), "kinds": len(value_kinds()), "contexts": CONTEXTS_C})
    return res


def replay(case):
    res = new_result()
    k = dict(case["k"])
    k["templates"] = frozenset(k["templates"])
    k["precedence"] = tuple(k["precedence"])
    d = dict(case["rule"]["detection"])
    conds = d.pop("condition")
    conds = conds if isinstance(conds, list) else [conds]
    # recover the trees by searching the small spaces for the same condition text
    trees = []
    pool = list(space_A("thorough")) if case["sub"] == "A" else [[t] for _, t in CONTEXTS_B] + [[X], [("not", X)]]
    for c in conds:
        for ts in pool:
            for t in ts:
                if RR.condition_text(t) == c:
                    trees.append(t)
                    break
            else:
                continue
            break
    judge(res, case["sub"], d, trees, k, label=case.get("label"))
    return res["violations"]
