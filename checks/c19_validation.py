"""C19 - validation only observes: it is exact about references and changes nothing."""
import copy
import itertools
import re
from pathlib import Path

from mc import explore as E
from mc import trees as T
from mc import vbackend as V
from mc.runner import add_violation, h64, new_result

PROPERTY = "C19"
LEVEL = "model_checking"
RULE = (
    "(A2) the same condition text in several rules (different detection names) validated by one validator instance in both rule orders; (A) every rule of the condition space (all trees up to the operator bound over detection names and selectors incl. "
    "zero-match, keyword-like and underscore names) is validated by the two reference validators and compared with the "
    "reference (unused / dangling sets); (B) every built-in validator alone, and the full set, on every rule of a mixed pool "
    "with snapshots (to_dict, queries in two backend configurations, structural repr) before/after - histories "
    "validate/convert/to_dict of length <= 3; (C) every ordered collection of <= n rules over id/title/filename attribute "
    "combinations x every order of the stateful validators (instance set replaced by an ordered list) x exclusion tables: "
    "issue multiset must equal the reference groups and be independent of rule and validator order. state = (validator "
    "order, rule order, ops so far). non-trivial = case whose reference issue set is non-empty."
)
RULE += (" " + '(A2) one validator instance is fed rules that share a condition text but differ in their detection names, in both orders. Uniqueness groups are also built from verbatim copies; the rules named by an issue are identified by object identity.')
ASSUMPTIONS = ["reference: unused(d) <=> no condition names d or a selector matching it; dangling(sel) <=> matches nothing; uniqueness groups by value",
               "issue = (class, rule titles sorted, extra fields); order of the issue list is not judged"]
BOUNDS = {"quick": dict(kfull=1, kred=2, coll=3), "thorough": dict(kfull=2, kred=3, coll=4)}
NAMESETS = [["sel", "sel_a", "flt_a", "_u"], ["notepad", "all_x", "them2", "_them"], ["s1", "s2"], ["only"]]
QUANT = ["1 of", "all of"]
PATTERNS = ["them", "sel*", "*_a", "s*", "_*", "zz*", "*"]


def bounds(tier):
    return dict(BOUNDS[tier], namesets=NAMESETS, patterns=PATTERNS)


NETWORK_VALIDATORS = {"attacktag", "d3_fendtag"}  # download MITRE data at first use: not runnable offline, excluded


def all_validators():
    from sigma.validators.core import validators

    return {k: v for k, v in validators.items() if k not in NETWORK_VALIDATORS}


# ------------------------------------------------------------------------------------------------ (A) reference checks
def sel_matches(pattern, names):
    if pattern == "them":
        return [n for n in names if not n.startswith("_")]
    rx = re.compile("".join(".*" if c == "*" else re.escape(c) for c in pattern))
    return [n for n in names if rx.fullmatch(n) and (pattern.startswith("_") or not n.startswith("_"))]


def leaf_text(l):
    return l[1] if l[0] == "n" else f"{l[1]} {l[2]}"


def tmap(t):
    if t[0] == "leaf":
        return ("leaf", leaf_text(t[1]))
    return (t[0],) + tuple(tmap(x) for x in t[1:])


def rule_doc(names, conds, title="t", rid=None):
    d = {"title": title, "logsource": {"category": "c"}, "detection": {n: {f"F{i}": "v"} for i, n in enumerate(names)}}
    d["detection"]["condition"] = conds if len(conds) > 1 else conds[0]
    if rid:
        d["id"] = rid
    return d


def space_A(tier):
    b = BOUNDS[tier]
    for names in NAMESETS:
        leaves = [("n", n) for n in names] + [("s", q, p) for q in QUANT for p in PATTERNS]
        red = [("n", names[0]), ("s", "1 of", "sel*"), ("s", "all of", "_*"), ("s", "1 of", "zz*"), ("s", "1 of", "them")]
        seen = set()
        for t in itertools.chain(T.trees_upto(b["kfull"], leaves), T.trees_upto(b["kred"], red)):
            if t not in seen:
                seen.add(t)
                yield names, [t]
        for t1, t2 in itertools.product([("leaf", l) for l in red], repeat=2):
            yield names, [t1, t2]


def payload(issue):
    """what an issue says: its dataclass fields (other instance attributes are bookkeeping the statement does not speak about)"""
    import dataclasses

    return {f.name: str(getattr(issue, f.name)) for f in dataclasses.fields(issue) if f.name != "rules"}


def issues_of(issues):
    out = []
    for i in issues:
        extra = payload(i)
        out.append((type(i).__name__, tuple(sorted(str(r.title) for r in i.rules)), tuple(sorted(extra.items()))))
    return sorted(out)


def judge_A(res, st, names, trees):
    from sigma.rule import SigmaRule
    from sigma.validation import SigmaValidator

    vs = all_validators()
    conds = [T.print_min(tmap(t)) for t in trees]
    doc = rule_doc(names, conds)
    case = {"sub": "A", "names": names, "conditions": conds}
    res["evaluations"] += 1
    st.transition()
    try:
        rule = SigmaRule.from_dict(copy.deepcopy(doc))
        got = issues_of(SigmaValidator([vs["dangling_detection"], vs["dangling_condition"]]).validate_rules([rule]))
    except Exception as e:
        add_violation(res, f"A:exception:{type(e).__name__}", case, "issues", repr(e)[:200])
        return
    referenced, dangling = set(), set()
    for t in trees:
        for l in T.leaves_of(t):
            if l[0] == "n":
                referenced.add(l[1])
            else:
                ms = sel_matches(l[2], names)
                referenced.update(ms)
                if not ms:
                    dangling.add(l[2])
    exp = sorted([("DanglingDetectionIssue", ("t",), (("detection_name", n),)) for n in names if n not in referenced] +
                 [("DanglingConditionIssue", ("t",), (("condition_name", p),)) for p in dangling])
    res["outcomes"].add(h64(exp))
    if exp:
        res["nontrivial"].add(h64(case))
    if got != exp:
        kind = "unused" if [g for g in got if g[0].startswith("DanglingDet")] != [e for e in exp if e[0].startswith("DanglingDet")] else "dangling"
        cls = "underscore" if any(n.startswith("_") for n in set(x[2][0][1] for x in got) ^ set(x[2][0][1] for x in exp)) else "plain"
        add_violation(res, f"A:{kind}-set-differs:{cls}", case, exp, got)


A2_NAMESETS = [["sel", "sel_a", "flt_a", "_u"], ["sel", "sel1", "x_a"], ["sel", "sel_b", "sel_c", "_sel_d", "y_a"]]
A2_PATTERNS = ["them", "sel*", "*_a", "_*", "zz*"]


def space_A2(tier):
    """the same condition text in several rules of one collection (different detection names), one validator instance"""
    leaves = [("n", "sel")] + [("s", q, p) for q in QUANT for p in A2_PATTERNS]
    for t in T.trees_upto(BOUNDS[tier]["kred"], leaves):
        yield t


def ref_issues_A(names, trees, title):
    referenced, dangling = set(), set()
    for t in trees:
        for l in T.leaves_of(t):
            if l[0] == "n":
                referenced.add(l[1])
            else:
                ms = sel_matches(l[2], names)
                referenced.update(ms)
                if not ms:
                    dangling.add(l[2])
    return ([("DanglingDetectionIssue", (title,), (("detection_name", n),)) for n in names if n not in referenced] +
            [("DanglingConditionIssue", (title,), (("condition_name", p),)) for p in dangling])


def judge_A2(res, st, tree):
    from sigma.rule import SigmaRule
    from sigma.validation import SigmaValidator

    vs = all_validators()
    cond = T.print_min(tmap(tree))
    case = {"sub": "A2", "condition": cond, "namesets": A2_NAMESETS}
    for order in (list(range(len(A2_NAMESETS))), list(reversed(range(len(A2_NAMESETS))))):
        res["evaluations"] += 1
        st.history()
        st.transition(len(order))
        try:
            rules = [SigmaRule.from_dict(rule_doc(A2_NAMESETS[i], [cond], title=f"t{i}")) for i in order]
            got = issues_of(SigmaValidator([vs["dangling_detection"], vs["dangling_condition"]]).validate_rules(iter(rules)))
        except Exception as e:
            add_violation(res, f"A2:exception:{type(e).__name__}", case, "issues", repr(e)[:200])
            return
        exp = sorted(x for i in order for x in ref_issues_A(A2_NAMESETS[i], [tree], f"t{i}"))
        res["outcomes"].add(h64(exp))
        if exp:
            res["nontrivial"].add(h64([cond, order]))
        if got != exp:
            add_violation(res, "A2:issue-set-differs-for-rules-sharing-a-condition-text", dict(case, order=order), exp, got)
            return


# ------------------------------------------------------------------------------------------------ (B) purity
POOL_B = [
    {"title": "b1", "id": "11111111-1111-4111-8111-111111111111", "logsource": {"category": "process_creation", "product": "windows"}, "tags": ["attack.t1059", "attack.t1059"],
     "references": ["http://a", "http://a"], "fields": ["f1"],
     "detection": {"sel": {"f1|contains": "*a*", "f2": ["1", "x\\*y"], "f3|re": "a.*"}, "flt": {"f4": None}, "unused": {"f5": "z"}, "condition": "sel and not flt"}},
    {"title": "b2", "logsource": {"product": "windows", "service": "sysmon"}, "realted": [{"id": "x", "type": "derived"}],
     "detection": {"sel": {"EventID": 1, "f1|endswith|all": ["a", "b"]}, "kw": ["k1", "k**2"], "condition": "1 of them"}},
    {"title": "b3", "id": "33333333-3333-4333-8333-333333333333", "logsource": {"category": "c"},
     "detection": {"sel_a": {"f1|windash|contains": "-x", "f2|cidr": "10.0.0.0/8"}, "sel_b": [{"f3": "v"}, {"f4|cased": "V"}], "_u": {"f9": 1}, "condition": ["all of sel_*", "1 of zz*"]}},
]
OPS = ["validate", "convert", "to_dict", "validate_all"]


def snapshot(rule):
    from sigma.exceptions import SigmaError

    out = {}
    try:
        out["dict"] = rule.to_dict()
    except SigmaError as e:
        out["dict"] = ("err", type(e).__name__)
    for nm, k in (("q0", V.K()), ("qne", V.K(not_eq=True))):
        try:
            out[nm] = V.make_backend_class(k)().convert_rule(rule)
        except Exception as e:
            out[nm] = ("err", type(e).__name__)
    out["struct"] = repr([(n, repr(d.detection_items), d.item_linking.__name__ if d.item_linking else None) for n, d in rule.detection.detections.items()]) + repr(rule.detection.condition) + repr(rule.tags) + repr(rule.fields) + repr(rule.custom_attributes)
    return out


def judge_B(res, st, doc, vname, ops):
    from sigma.rule import SigmaRule
    from sigma.validation import SigmaValidator

    vs = all_validators()
    classes = list(vs.values()) if vname == "ALL" else [vs[vname]]
    case = {"sub": "B", "rule": doc["title"], "validator": vname, "ops": list(ops)}
    res["evaluations"] += 1
    st.history()
    st.state([doc["title"], vname, ops])
    rule = SigmaRule.from_dict(copy.deepcopy(doc), source=None)
    before = snapshot(rule)
    first = None
    for op in ops:
        st.transition()
        try:
            if op in ("validate", "validate_all"):
                cl = classes if op == "validate" else list(vs.values())
                iss = issues_of(SigmaValidator(cl).validate_rules([rule]))
                if op == "validate":
                    if first is None:
                        first = iss
                    elif iss != first:
                        add_violation(res, f"B:issues-change-between-runs:{vname}", case, first, iss)
            elif op == "convert":
                V.make_backend_class(V.K())().convert_rule(rule)
            else:
                rule.to_dict()
        except Exception as e:
            add_violation(res, f"B:exception:{type(e).__name__}:{op}:{vname}", case, "no exception", repr(e)[:200])
            return
        after = snapshot(rule)
        if after != before:
            which = next(k for k in before if before[k] != after[k])
            add_violation(res, f"B:rule-changed:{which}:after-{op}:{vname if op == 'validate' else op}", case, str(before[which])[:300], str(after[which])[:300])
            return
    res["outcomes"].add(h64(first))
    if first:
        res["nontrivial"].add(h64(case))


# ------------------------------------------------------------------------------------------------ (C) uniqueness / order / exclusions
IDS = {"A": "aaaaaaaa-aaaa-4aaa-8aaa-aaaaaaaaaaaa", "B": "bbbbbbbb-bbbb-4bbb-8bbb-bbbbbbbbbbbb", "-": None}
TITLES = ["T1", "T2"]
FILES = ["p/x.yml", "q/x.yml", "p/y.yml", None]
STATEFUL = ["identifier_uniqueness", "duplicate_title", "duplicate_filename"]


def attr_combos():
    return [(i, t, f) for i in IDS for t in TITLES for f in FILES]


def mk_rule(idx, combo, identical=False):
    from sigma.exceptions import SigmaRuleLocation
    from sigma.rule import SigmaRule

    i, t, f = combo
    d = {"title": t, "logsource": {"category": "c"}, "detection": {"sel": {"f": f"v{idx}"}, "condition": "sel"}, "description": f"rule#{idx}"}
    if identical:  # verbatim copies: rules with the same combo are equal objects (the same file listed twice)
        d["detection"]["sel"]["f"] = "v"
        d["description"] = "copy"
    if IDS[i]:
        d["id"] = IDS[i]
    r = SigmaRule.from_dict(d, source=SigmaRuleLocation(Path("/rules/" + f)) if f else None)
    return r


def ref_C(coll, excl):
    """expected issues; coll: list of (idx, combo); excl: dict id-letter -> set of validator names"""
    def counted(v):
        return [(idx, c) for idx, c in coll if v not in excl.get(c[0], set())]
    out = []
    groups = {}
    for idx, c in counted("identifier_uniqueness"):
        if IDS[c[0]]:
            groups.setdefault(IDS[c[0]], []).append((idx, c))
    out += [("IdentifierCollisionIssue", tuple(sorted(f"rule#{i}" for i, _ in g)), (("identifier", k),)) for k, g in groups.items() if len(g) > 1]
    groups = {}
    for idx, c in counted("duplicate_title"):
        groups.setdefault(c[1], []).append((idx, c))
    out += [("DuplicateTitleIssue", tuple(sorted(f"rule#{i}" for i, _ in g)), (("title", k),)) for k, g in groups.items() if len(g) > 1]
    groups = {}
    for idx, c in counted("duplicate_filename"):
        if c[2]:
            groups.setdefault(c[2].split("/")[-1], []).append((idx, c))
    out += [("DuplicateFilenameIssue", tuple(sorted(f"rule#{i}" for i, _ in g)), (("filename", k),)) for k, g in groups.items() if len({c[2] for _, c in g}) > 1]
    return sorted(out)


def issues_C(issues, index):
    """rules of an issue are identified by object identity (index: id(rule object) -> position in the collection)"""
    out = []
    for i in issues:
        extra = payload(i)
        out.append((type(i).__name__, tuple(sorted(f"rule#{index.get(id(r), '?')}" for r in i.rules)), tuple(sorted(extra.items()))))
    return sorted(out)


def judge_C(res, st, combos, vorder, excl, identical=False):
    from uuid import UUID

    from sigma.validation import SigmaValidator

    vs = all_validators()
    coll = list(enumerate(combos))
    case = {"sub": "C", "rules": [list(c) for c in combos], "validator_order": list(vorder), "exclusions": {k: sorted(v) for k, v in excl.items()}, "identical_copies": identical}
    res["evaluations"] += 1
    st.history()
    st.transition(len(combos))
    st.state([combos, vorder, sorted(excl)])
    rules = [mk_rule(i, c, identical) for i, c in coll]
    ex = {(UUID(IDS[k]) if IDS[k] else None): {vs[v] for v in vals} for k, vals in excl.items()}
    sv = SigmaValidator([vs[v] for v in vorder], ex)
    byclass = {type(v): v for v in sv.validators}
    sv.validators = [byclass[vs[v]] for v in vorder]  # own the iteration order of the validator set
    try:
        got = issues_C(sv.validate_rules(iter(rules)), {id(r): n for n, r in enumerate(rules)})
    except Exception as e:
        add_violation(res, f"C:exception:{type(e).__name__}", case, "issues", repr(e)[:200])
        return
    exp = ref_C(coll, excl)
    res["outcomes"].add(h64(exp))
    if exp:
        res["nontrivial"].add(h64(case))
    if got != exp:
        which = sorted({x[0] for x in set(got) ^ set(exp)})
        add_violation(res, "C:issue-set-differs:" + ",".join(which) + (":with-exclusion" if excl else "") + (":identical-copies" if identical else ""), case, exp, got)


# ------------------------------------------------------------------------------------------------
NSH_A, NSH_C = 16, 32


def plan(tier, seed):
    return [("A", i) for i in range(NSH_A)] + [("B", i) for i in range(len(POOL_B))] + [("C", i) for i in range(NSH_C)]


def run_shard(shard, tier, seed):
    res = new_result()
    st = E.Stats(res)
    sub, idx = shard
    if sub == "A":
        for n, (names, trees) in enumerate(space_A(tier)):
            if n % NSH_A == idx:
                st.history()
                judge_A(res, st, names, trees)
        for n, t in enumerate(space_A2(tier)):
            if n % NSH_A == idx:
                judge_A2(res, st, t)
        st.state(["A", idx])
        res["samples"].append({"sub": "A", "names": NAMESETS[0], "condition": "1 of sel* and not _u"})
    elif sub == "B":
        doc = POOL_B[idx]
        names = list(all_validators()) + ["ALL"]
        for vname in names:
            for n in range(1, 4):
                for ops in itertools.product(OPS, repeat=n):
                    if "validate" in ops and (n < 3 or vname in ("ALL", "dangling_detection", "dangling_condition", "duplicate_title")):
                        judge_B(res, st, doc, vname, ops)
        res["samples"].append({"sub": "B", "rule": doc["title"], "ops": ["validate", "convert", "validate"]})
    else:
        combos = attr_combos()
        n = 0
        ncoll = BOUNDS[tier]["coll"]
        reduced = [c for c in combos if c[2] in ("p/x.yml", "q/x.yml", None) or c == ("A", "T1", "p/y.yml")]
        for size in range(1, ncoll + 1):
            pool = combos if size <= 2 else reduced[:10] if size == 3 else reduced[:6]
            for coll in itertools.product(pool, repeat=size):
                n += 1
                if n % NSH_C != idx:
                    continue
                orders = list(itertools.permutations(STATEFUL)) if size <= 2 else [tuple(STATEFUL), tuple(reversed(STATEFUL))]
                for vorder in orders:
                    judge_C(res, st, coll, vorder, {})
                if len(set(coll)) < len(coll):  # some combination occurs twice: also as verbatim copies
                    judge_C(res, st, coll, tuple(STATEFUL), {}, identical=True)
                for ev in STATEFUL:
                    judge_C(res, st, coll, tuple(STATEFUL), {"A": {ev}})
                judge_C(res, st, coll, tuple(STATEFUL), {"-": {"duplicate_title"}})
        res["samples"].append({"sub": "C", "rules": [["A", "T1", "p/x.yml"], ["A", "T2", "q/x.yml"]], "validator_order": STATEFUL})
    return res


def replay(case):
    res = new_result()
    st = E.Stats(res)
    if case["sub"] == "C":
        judge_C(res, st, [tuple(c) for c in case["rules"]], tuple(case["validator_order"]), {k: set(v) for k, v in case["exclusions"].items()}, case.get("identical_copies", False))
    elif case["sub"] == "B":
        doc = next(d for d in POOL_B if d["title"] == case["rule"])
        judge_B(res, st, doc, case["validator"], tuple(case["ops"]))
    else:
        for names, trees in space_A("thorough"):
            if names == case["names"] and [T.print_min(tmap(t)) for t in trees] == case["conditions"]:
                judge_A(res, st, names, trees)
                break
    return res["violations"]
