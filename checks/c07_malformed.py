"""C07 - malformed documents raise Sigma errors only; collecting mode never raises."""
import copy
import datetime
import traceback

import yaml

from mc.runner import add_violation, h64, new_result

PROPERTY = "C07"
LEVEL = "fault_enumeration"
RULE = (
    "fault enumeration over documents: for every base document (rules, one correlation rule per type incl. aliases and "
    "extended conditions, filters, collections with global/repeat/reset actions) EVERY path (keys, nested keys, list "
    "elements, the document itself) x EVERY replacement from the replacement menu (delete, None, bool, ints, float, strings, "
    "lists, maps, date, nested list, non-string key) is applied as a single deviation (quick) and as every pair of "
    "deviations on the smallest documents (thorough); each mutant is loaded strictly and with collect_errors through the "
    "class loader and through SigmaCollection.from_dicts / from_yaml. Oracle: strict returns or raises a SigmaError; "
    "collecting never raises; errors non-empty <=> strict raised; errors[0] == strict exception. non-trivial = mutant that "
    "strict loading rejects; distinct by (document, path, replacement)."
)
RULE += (" " + 'Entry points: X.from_dict, from_dicts (also with collect_filters=True and with resolve_references=False), from_yaml, load_ruleset (one file per document). Two base collections already carry one error per document, so that every deviation probes the order of collected errors.')
ASSUMPTIONS = ["SigmaError.__eq__ (type, source, args) defines equality of the first collected error and the strict exception",
               "YAML text path is exercised through yaml.safe_dump of the mutated document (plus hand-written duplicate-key texts)"]

RID = "5a1b2c3d-0000-4000-8000-00000000000"
R_MIN = {"title": "min", "logsource": {"category": "c"}, "detection": {"sel": {"f": "v"}, "condition": "sel"}}
R_FULL = {
    "title": "full", "id": RID + "1", "name": "full_rule", "taxonomy": "sigma", "related": [{"id": RID + "2", "type": "derived"}],
    "status": "test", "description": "d", "license": "MIT", "references": ["http://x"], "tags": ["attack.t1059", "cve.2020-1234"],
    "author": "a", "date": "2024-01-02", "modified": "2024/1/3",
    "logsource": {"category": "process_creation", "product": "windows", "service": "s", "definition": "def"},
    "detection": {"sel": {"f1": ["a", "b"], "f2|contains": "x", "f5|re": "a.*b", "f6|cidr": "10.0.0.0/8", "f7|wide|base64offset|contains": "pay", "f8|base64": "load"}, "flt": [{"f3": 1}, {"f4": None}], "kw": ["k1", "k2"], "condition": ["sel and not flt", "1 of kw*"]},
    "fields": ["f1"], "falsepositives": ["fp"], "level": "high", "scope": ["srv"], "custom": {"k": "v"},
}


def corr(ctype, cond, **kw):
    c = {"type": ctype, "rules": ["full_rule", RID + "1"], "timespan": "5m", "group-by": ["user"], "condition": cond}
    c.update(kw)
    return {"title": "corr-" + ctype, "id": RID + "3", "name": "c_" + ctype, "status": "test", "correlation": c}


CORRS = {
    "event_count": corr("event_count", {"gte": 5}),
    "value_count": corr("value_count", {"gte": 5, "field": "user"}, aliases={"user": {"full_rule": "User", RID + "1": "user"}}),
    "temporal": corr("temporal", None, generate=True),
    "temporal_ordered": corr("temporal_ordered", "full_rule and not other", rules=["full_rule", "other"]),
    "value_sum": corr("value_sum", {"lt": 10, "field": "bytes"}),
    "value_avg": corr("value_avg", {"gt": 1, "field": "bytes"}),
    "value_percentile": corr("value_percentile", {"lte": 9, "field": "bytes", "percentile": 95}),
    "value_median": corr("value_median", {"eq": 3, "field": ["a", "b"]}),
}
del CORRS["temporal"]["correlation"]["condition"]
FILTERS = {
    "filter_any": {"title": "f-any", "id": RID + "4", "logsource": {"category": "c"}, "filter": {"rules": "any", "flt": {"user": "x"}, "condition": "not flt"}},
    "filter_list": {"title": "f-list", "logsource": {"category": "c", "product": "windows"}, "filter": {"rules": [RID + "1", "full_rule"], "flt": {"user|startswith": "x"}, "flt2": ["k"], "condition": "flt and not flt2"}},
}
COLLECTIONS = {
    "coll_global": [{"action": "global", "title": "g", "logsource": {"category": "c"}}, {"detection": {"sel": {"f": 1}, "condition": "sel"}}, {"action": "repeat", "detection": {"sel": {"f": 2}}}, {"action": "reset"}, copy.deepcopy(R_MIN)],
    "coll_mixed": [copy.deepcopy(R_FULL), copy.deepcopy(CORRS["event_count"]), copy.deepcopy(FILTERS["filter_any"])],
    # documents that already carry one error each: every further deviation must leave the FIRST error (document order) in front
    "coll_bad_first": [dict(copy.deepcopy(R_MIN), level="nope"), copy.deepcopy(R_MIN), dict(copy.deepcopy(FILTERS["filter_any"]), title="f2")],
    "coll_bad_each": [dict(copy.deepcopy(R_MIN), status="nope"), dict(copy.deepcopy(CORRS["event_count"]), level="nope"), dict(copy.deepcopy(FILTERS["filter_any"]), date="nope"), copy.deepcopy(R_MIN)],
}
DOCS = {"rule_min": ("rule", R_MIN), "rule_full": ("rule", R_FULL)}
DOCS.update({"corr_" + k: ("correlation", v) for k, v in CORRS.items()})
DOCS.update({k: ("filter", v) for k, v in FILTERS.items()})
DOCS.update({k: ("collection", v) for k, v in COLLECTIONS.items()})

DELETE = ("<delete>",)
RENAME_UP, RENAME_CAP = ("<rename-key-upper>",), ("<rename-key-capitalized>",)  # the key of a map entry in another letter case
ADD_INT, ADD_NULL, ADD_STR, ADD_MIXED = ("<add-entry-with-int-key>",), ("<add-entry-with-null-key>",), ("<add-entry-with-unknown-key>",), ("<add-entries-with-str-and-int-key>",)  # extra entries in a map
ADDS = {ADD_INT: {5: 1}, ADD_NULL: {None: 1}, ADD_STR: {"zz_unknown": 1}, ADD_MIXED: {"zz_unknown": 1, 5: 1, True: 2}}


def is_add(repl):
    return isinstance(repl, tuple) and repl in ADDS


REPL = [DELETE, RENAME_UP, RENAME_CAP, ADD_INT, ADD_NULL, ADD_STR, ADD_MIXED, None, True, 0, -1, 1.5, "", "x", "1", [], ["x"], [1], [None], {}, {"k": "v"}, {1: 2}, datetime.date(2020, 1, 1), [[]],
        "2024-13-45", "2023-02-30", "2021/2/30", "not-a-uuid", "5x", "1 of", "and", {"gte": "x"}, {"field": 1}, [{"id": 1}], "critical!", "a\ud800b", "attack.", ".t1059", ".", "a.b.c", "a{99999999999}", "(a", "10.0.0.1/8", 10**30, float("inf"), float("nan"), -0.0, b"bytes", datetime.datetime(2020, 1, 1, 12, 0)]
SMALL = ["rule_min", "corr_event_count", "filter_any"]


def bounds(tier):
    return {"documents": list(DOCS), "replacements": len(REPL), "deviations": 1 if tier == "quick" else "1, and 2 on " + ",".join(SMALL),
            "entry_points": ["X.from_dict", "SigmaCollection.from_dicts (+collect_filters, +resolve_references=False)", "SigmaCollection.from_yaml", "SigmaCollection.load_ruleset"]}


def paths(doc, prefix=()):
    """all paths incl. the root"""
    yield prefix
    if isinstance(doc, dict):
        for k, v in doc.items():
            yield from paths(v, prefix + (k,))
    elif isinstance(doc, list):
        for i, v in enumerate(doc):
            yield from paths(v, prefix + (i,))


SAME = ("<unchanged>",)


def mutate(doc, path, repl):
    doc = copy.deepcopy(doc)
    if is_add(repl):
        cur = doc
        for p in path:
            cur = cur[p]
        if not isinstance(cur, dict):
            return SAME
        cur.update(ADDS[repl])
        return doc
    if not path:
        if repl in (RENAME_UP, RENAME_CAP):
            return SAME
        return None if repl is DELETE else copy.deepcopy(repl)
    cur = doc
    for p in path[:-1]:
        cur = cur[p]
    if repl is DELETE:
        del cur[path[-1]]
    elif repl in (RENAME_UP, RENAME_CAP):
        k = path[-1]
        nk = (k.upper() if repl is RENAME_UP else k.capitalize()) if isinstance(k, str) else k
        if not isinstance(cur, dict) or nk == k or nk in cur:
            return None if not path else SAME
        items = [((nk if a == k else a), b) for a, b in cur.items()]
        cur.clear()
        cur.update(items)
    else:
        cur[path[-1]] = copy.deepcopy(repl)
    return doc


def rclass(repl):
    if repl is DELETE:
        return "delete"
    if repl in (RENAME_UP, RENAME_CAP):
        return "rename-key"
    if is_add(repl):
        return "add-entry"
    return type(repl).__name__ + ("-empty" if repl in ("", [], {}) else "")


def norm_path(path):
    return "/".join("#" if isinstance(p, int) else str(p) for p in path) or "<root>"


def loader(kind):
    from sigma.collection import SigmaCollection
    from sigma.correlations import SigmaCorrelationRule
    from sigma.filters import SigmaFilter
    from sigma.rule import SigmaRule

    return {"rule": SigmaRule.from_dict, "correlation": SigmaCorrelationRule.from_dict, "filter": SigmaFilter.from_dict,
            "collection": lambda d, collect_errors=False: SigmaCollection.from_dicts(d, collect_errors)}[kind]


def innermost_sigma_frame(e):
    tb = traceback.extract_tb(e.__traceback__)
    for fr in reversed(tb):
        if "/sigma/" in fr.filename:
            return fr.filename.split("/sigma/")[-1] + ":" + fr.name
    return "?"


def run(load, doc, collect):
    from sigma.exceptions import SigmaError

    try:
        obj = load(doc, collect_errors=collect) if collect else load(doc)
    except SigmaError as e:
        return ("sigma", e, None)
    except RecursionError:
        raise
    except Exception as e:
        return ("other", e, innermost_sigma_frame(e))
    return ("ok", obj, None)


_TMP = []


def _tmp_root():
    """a directory name that is stable within this process (errors carry their source path); created and removed around each use"""
    import os, tempfile

    return os.path.join(tempfile.gettempdir(), f"c07root_{os.getpid()}")


def judge(res, name, kind, doc, devs, via):
    """via: 'class' | 'dicts' | 'yaml'"""
    from sigma.collection import SigmaCollection

    case = {"doc": name, "deviations": [[list(p), repr(r)] for p, r in devs], "via": via}
    res["evaluations"] += 1
    desc = ";".join(f"{norm_path(p)}={rclass(r)}" for p, r in devs)
    if via == "class":
        load = loader(kind)
    elif via == "dicts":
        load = lambda d, collect_errors=False: SigmaCollection.from_dicts(d if isinstance(d, list) else [d], collect_errors)
    elif via == "dicts-collect-filters":  # filters are only collected, not applied
        load = lambda d, collect_errors=False: SigmaCollection.from_dicts(d if isinstance(d, list) else [d], collect_errors, collect_filters=True)
    elif via == "dicts-no-resolve":  # references are resolved later by the caller
        load = lambda d, collect_errors=False: SigmaCollection.from_dicts(d if isinstance(d, list) else [d], collect_errors, resolve_references=False)
    elif via == "ruleset":  # one file per document, loaded with load_ruleset
        def load(d, collect_errors=False):
            import os, shutil, tempfile
            from pathlib import Path

            tmp = os.path.join(_tmp_root(), "ruleset")  # the same path for the strict and the collecting run: errors carry their source
            shutil.rmtree(_tmp_root(), ignore_errors=True)
            os.makedirs(tmp)
            try:
                for i, x in enumerate(d if isinstance(d, list) else [d]):
                    with open(os.path.join(tmp, f"{i:02d}.yml"), "w") as fh:
                        fh.write(yaml.safe_dump(x, sort_keys=False))
                return SigmaCollection.load_ruleset([Path(tmp)], collect_errors=collect_errors)
            finally:
                shutil.rmtree(_tmp_root(), ignore_errors=True)
    else:
        def load(d, collect_errors=False):
            text = yaml.safe_dump_all(d if isinstance(d, list) else [d], sort_keys=False)
            return SigmaCollection.from_yaml(text, collect_errors)
    try:
        # each load gets its own copy: whether a loader may rewrite the document it is given is not part of the statement
        # (the collection loader does so for 'action: global/repeat' documents)
        strict = run(load, copy.deepcopy(doc), False)
        coll = run(load, copy.deepcopy(doc), True)
    except yaml.YAMLError:
        return  # not YAML-representable (e.g. non-string key types yaml refuses): outside the quantifier
    res["outcomes"].add(h64([strict[0], coll[0]]))
    if strict[0] == "sigma":
        res["nontrivial"].add(h64([name, desc]))
    if strict[0] == "other":
        add_violation(res, f"strict:non-sigma-exception:{type(strict[1]).__name__}:{strict[2]}", case, "SigmaError or success", repr(strict[1])[:200], detail=desc)
    if coll[0] == "other":
        add_violation(res, f"collect:non-sigma-exception:{type(coll[1]).__name__}:{coll[2]}", case, "no exception", repr(coll[1])[:200], detail=desc)
        return
    if coll[0] == "sigma":
        add_violation(res, f"collect:raised-sigma-error:{type(coll[1]).__name__}:{innermost_sigma_frame(coll[1])}", case, "collected, not raised", repr(coll[1])[:200], detail=desc)
        return
    if strict[0] == "other":
        return
    errors = list(coll[1].errors)
    if strict[0] == "ok" and errors:
        add_violation(res, f"collect:errors-but-strict-succeeds:{type(errors[0]).__name__}", case, [], [repr(e)[:100] for e in errors[:3]], detail=desc)
    elif strict[0] == "sigma" and not errors:
        add_violation(res, f"collect:no-error-but-strict-raises:{type(strict[1]).__name__}:{innermost_sigma_frame(strict[1])}", case, repr(strict[1])[:150], [], detail=desc)
    elif strict[0] == "sigma" and not (errors[0] == strict[1]):
        add_violation(res, f"collect:first-error-differs:{type(strict[1]).__name__}-vs-{type(errors[0]).__name__}", case, repr(strict[1])[:150], repr(errors[0])[:150], detail=desc)


DUP_YAML = [
    ("dup-title", "title: a\ntitle: b\nlogsource: {category: c}\ndetection: {sel: {f: v}, condition: sel}\n"),
    ("dup-detection-key", "title: a\nlogsource: {category: c}\ndetection:\n  sel: {f: v}\n  sel: {g: w}\n  condition: sel\n"),
    ("dup-field", "title: a\nlogsource: {category: c}\ndetection:\n  sel:\n    f: v\n    f: w\n  condition: sel\n"),
    ("scalar-doc", "just a string\n"),
    ("list-doc", "- a\n- b\n"),
    ("empty-doc", ""),
    ("two-docs-one-null", "title: a\nlogsource: {category: c}\ndetection: {sel: {f: v}, condition: sel}\n---\n"),
]


def plan(tier, seed):
    shards = [("single", n, k) for n in DOCS for k in range(4)]
    if tier == "thorough":
        shards += [("pair", n, k) for n in SMALL for k in range(8)]
    return shards + [("yaml-text", 0)]


def run_shard(shard, tier, seed):
    from sigma.collection import SigmaCollection
    from sigma.exceptions import SigmaError

    res = new_result()
    if shard[0] == "yaml-text":
        for nm, text in DUP_YAML:
            for collect in (False, True):
                res["evaluations"] += 1
                try:
                    SigmaCollection.from_yaml(text, collect_errors=collect)
                    res["outcomes"].add(h64("ok"))
                except SigmaError:
                    res["outcomes"].add(h64("sigma"))
                    if collect:
                        add_violation(res, f"collect:raised-sigma-error:yaml-text:{nm}", {"yaml": text, "collect": collect}, "no exception", "SigmaError")
                except Exception as e:
                    add_violation(res, f"{'collect' if collect else 'strict'}:non-sigma-exception:{type(e).__name__}:{innermost_sigma_frame(e)}", {"yaml": text, "collect": collect}, "SigmaError or success", repr(e)[:200], detail=nm)
        return res
    name = shard[1]
    kind, doc = DOCS[name]
    allp = list(paths(doc))
    if shard[0] == "single":
        for pi, p in enumerate(allp):
            if pi % 4 != shard[2]:
                continue
            for r in REPL:
                if kind == "collection" and not p:
                    continue  # the argument of from_dicts is always a list (yaml.safe_load_all); not a document
                m = mutate(doc, p, r)
                if m is SAME:
                    continue
                vias = ["class"] + (["dicts", "yaml"] if kind != "collection" else ["yaml"])
                if kind in ("collection", "correlation", "filter"):
                    vias += ["dicts-collect-filters", "dicts-no-resolve", "ruleset"]
                for via in vias:
                    mm = m
                    if via != "class" and kind in ("correlation", "filter"):
                        # a collection in which the references of the unmodified document resolve
                        other = dict(copy.deepcopy(R_MIN), name="other", title="other")
                        mm = [copy.deepcopy(R_FULL), other, m]
                    judge(res, name, kind, mm, [(p, r)], via)
        res["samples"].append({"doc": name, "path": list(allp[-1]), "replacement": "None"})
    else:
        k = shard[2]
        n = 0
        reduced = [DELETE, None, 0, "x", [], {}, ["x"], {"k": "v"}]
        for (p1, p2) in ((a, b) for i, a in enumerate(allp) for b in allp[i + 1:]):
            if p2[: len(p1)] == p1:
                continue  # second path inside the first replaced subtree
            for r1 in reduced:
                for r2 in reduced:
                    n += 1
                    if n % 8 != k:
                        continue
                    m = mutate(mutate(doc, p2, r2), p1, r1)  # later path first: deleting a list element must not shift the other path
                    judge(res, name, kind, m, [(p1, r1), (p2, r2)], "class")
        res["samples"].append({"doc": name, "pairs": "all pairs of paths x 8x8 replacements"})
    return res


def replay(case):
    res = new_result()
    if "yaml" in case:
        r = run_shard(("yaml-text", 0), "quick", 0)
        return [v for v in r["violations"] if v["case"] == case]
    kind, doc = DOCS[case["doc"]]
    devs = []
    for p, rr in case["deviations"]:
        r = next(x for x in REPL if repr(x) == rr)
        devs.append((tuple(p), r))
    for p, r in reversed(devs):
        doc = mutate(doc, p, r)
    if case["via"] != "class" and kind in ("correlation", "filter"):
        doc = [copy.deepcopy(R_FULL), dict(copy.deepcopy(R_MIN), name="other", title="other"), doc]
    judge(res, case["doc"], kind, doc, devs, case["via"])
    return res["violations"]
