"""C06 - serialising a rule and loading it again preserves its meaning."""
import copy
import datetime
import itertools

import yaml

from mc import refsigma as R
from mc import vbackend as V
from mc.runner import add_violation, h64, new_result

PROPERTY = "C06"
LEVEL = "exploration"
RULE = (
    "four completely enumerated sub-spaces: (M) every metadata field of a rule in {absent, variant 1, variant 2} one at a time "
    "and in all pairs; (D) detection shapes x every string of the value alphabet up to the length bound in one value slot x "
    "every single modifier and every 2-chain the reference accepts; (C) correlation documents: 8 types x condition forms x "
    "aliases x group-by x generate x extended conditions, and filter documents; (H) every rule of the transformation "
    "catalogue after each single pipeline transformation. Oracle: d1 = x.to_dict(); x2 = from_dict(d1); x2.to_dict() == d1; "
    "x and x2 convert to identical queries (for H: the transformed object vs the reloaded one without pipeline); the same "
    "through yaml.safe_dump / from_yaml; alternatively to_dict may raise a SigmaError. non-trivial = document whose value, "
    "modifier chain or metadata differs from the minimal rule; distinct by document (and transformation)."
)
ASSUMPTIONS = ["queries are compared as text with the verification backend K0 (correlation documents with the correlation templates)",
               "PyYAML safe_dump/safe_load is trusted"]
VAL_ALPHA = ["a", "*", "?", "\\", "%", " ", "B"]
BOUNDS = {"quick": dict(vlen=4, pairs=True), "thorough": dict(vlen=5, pairs=True)}
K0 = V.K()
KC = V.K(correlation={"typing": True})
RID = "6a000000-0000-4000-8000-00000000000"


def bounds(tier):
    return dict(BOUNDS[tier], value_alphabet=VAL_ALPHA, metadata_fields=list(META), modifiers=len(R.ALL_MODIFIERS))


META = {
    "id": [RID + "1", RID + "2"], "name": ["n1", "rule-name_2"], "taxonomy": ["sigma", "custom"], "status": ["test", "stable"],
    "description": ["d", "multi\nline: text"], "license": ["MIT", "DRL-1.1"], "references": [["http://a"], ["http://a", "b"]],
    "tags": [["attack.t1059"], ["attack.t1059.001", "cve.2020-1234", "tlp.amber"]], "author": ["a", "A, B"],
    "date": ["2024-01-02", "2024/1/3", datetime.date(2023, 12, 31)], "modified": ["2024-02-03", datetime.date(2024, 3, 4)],
    "fields": [["f1"], ["f1", "f 2"]], "falsepositives": [["fp"], ["fp1", "fp2"]], "level": ["low", "critical"], "scope": [["srv"], ["a", "b"]],
    "related": [[{"id": RID + "3", "type": "derived"}], [{"id": RID + "3", "type": "obsolete"}, {"id": RID + "4", "type": "similar"}]],
    "custom_attr": ["x", {"k": [1, 2]}],
}
BASE = {"title": "base", "logsource": {"category": "c"}, "detection": {"sel": {"f": "v"}, "condition": "sel"}}
LOGSOURCES = [{"category": "c"}, {"product": "p", "service": "s"}, {"category": "c", "product": "p", "service": "s", "definition": "some def"}, {"category": "c", "custom_ls": "x"}]


def load(kind, d, via_yaml=False):
    from sigma.correlations import SigmaCorrelationRule
    from sigma.filters import SigmaFilter
    from sigma.rule import SigmaRule

    cls = {"rule": SigmaRule, "correlation": SigmaCorrelationRule, "filter": SigmaFilter}[kind]
    if via_yaml:
        return cls.from_yaml(yaml.safe_dump(d, sort_keys=False))
    return cls.from_dict(d)  # the caller's document itself: loading must not change it (callers pass a private copy)


def queries(kind, obj, context):
    """convert the object (with its context documents) -> list of queries or ('err', type)"""
    from sigma.collection import SigmaCollection
    from sigma.rule import SigmaRule

    try:
        if kind == "rule":
            return V.make_backend_class(K0)().convert_rule(obj)
        ctx = [SigmaRule.from_dict(copy.deepcopy(c)) for c in context]
        coll = SigmaCollection(ctx + [obj])
        return V.make_backend_class(KC)().convert(coll)
    except Exception as e:
        return ("err", type(e).__name__, str(e)[:100])


def roundtrip(res, sub, kind, doc, context=(), label="", mech="", pre=None):
    """pre: optional function(obj) applied after loading (pipeline transformation)"""
    from sigma.exceptions import SigmaError

    case = {"sub": sub, "kind": kind, "doc": doc, "context": list(context), "label": label}
    res["evaluations"] += 1
    doc_given = copy.deepcopy(doc)
    try:
        x = load(kind, doc_given)
        if doc_given != doc:
            add_violation(res, f"{sub}:loading-changed-the-callers-document:{kind}", case, doc, doc_given, detail=label)
            return
    except SigmaError:
        res["outcomes"].add(h64("not-loadable"))
        return  # not a loadable document: outside the quantifier
    except Exception as e:
        res["outcomes"].add(h64("load-crash"))
        return  # malformed-document behaviour is C07's subject
    try:
        if pre is not None:
            pre(x)
    except Exception:
        return
    q1 = queries(kind, x, context)
    try:
        d1 = x.to_dict()
    except SigmaError as e:
        res["outcomes"].add(h64("to_dict-sigma-error"))
        if pre is None:  # refusing is allowed only for an object that a pipeline changed
            add_violation(res, f"{sub}:to_dict-refuses-an-object-no-pipeline-touched:{mech}", case, "dict", repr(e)[:200], detail=label)
        return
    except Exception as e:
        add_violation(res, f"{sub}:to_dict-non-sigma-exception:{type(e).__name__}:{mech}", case, "dict or SigmaError", repr(e)[:200], detail=label)
        return
    for via_yaml in (False, True):
        tag = "yaml" if via_yaml else "dict"
        try:
            d1_given = copy.deepcopy(d1)
            x2 = load(kind, d1_given, via_yaml)
            if d1_given != d1:
                add_violation(res, f"{sub}:loading-changed-the-callers-document:{kind}", case, str(d1)[:300], str(d1_given)[:300], detail=label)
                continue
        except SigmaError as e:
            add_violation(res, f"{sub}:reload-fails:{type(e).__name__}:{mech}", case, "loads", {"dict": str(d1)[:300], "error": str(e)[:150]}, detail=label)
            continue
        except Exception as e:
            add_violation(res, f"{sub}:reload-crash:{type(e).__name__}:{mech}", case, "loads", {"dict": str(d1)[:300], "error": repr(e)[:150]}, detail=label)
            continue
        try:
            d2 = x2.to_dict()
        except Exception as e:
            add_violation(res, f"{sub}:second-to_dict-fails:{type(e).__name__}:{mech}", case, d1, repr(e)[:150], detail=label)
            continue
        if d2 != d1:
            keys = sorted(k for k in set(d1) | set(d2) if d1.get(k) != d2.get(k))
            add_violation(res, (f"dict-not-a-fixpoint:{mech}" if mech == "backslash-before-special" else f"{sub}:dict-not-a-fixpoint:{','.join(keys)}:{mech}"), case, {k: d1.get(k) for k in keys}, {k: d2.get(k) for k in keys}, detail=label)
        q2 = queries(kind, x2, context)
        res["outcomes"].add(h64(str(q2)[:60]))
        if q2 != q1:
            add_violation(res, (f"queries-differ-after-reload:{mech}" if mech == "backslash-before-special" else f"{sub}:queries-differ-after-reload:{mech}"), case, q1, {"reloaded": q2, "dict": str(d1.get('detection', d1.get('correlation')))[:300]}, detail=label)
    res["nontrivial"].add(h64([sub, doc, label]))


# ------------------------------------------------------------------------------------------------ sub-spaces
def space_M(tier):
    fields = list(META)
    def put(d, f, v):
        if f == "custom_attr":
            d["my_custom"] = v
        else:
            d[f] = v
    for f in fields:
        for v in META[f]:
            d = copy.deepcopy(BASE)
            put(d, f, v)
            yield d, f"meta/{f}"
    for f1, f2 in itertools.combinations(fields, 2):
        for v1 in META[f1][:2]:
            for v2 in META[f2][:2]:
                d = copy.deepcopy(BASE)
                put(d, f1, v1)
                put(d, f2, v2)
                yield d, f"meta/{f1}+{f2}"
    for ls in LOGSOURCES:
        d = copy.deepcopy(BASE)
        d["logsource"] = ls
        yield d, "logsource"
    # every calendar day of a leap year, in the three accepted spellings, as date and as modified
    day = datetime.date(2024, 1, 1)
    while day.year == 2024:
        for n, v in enumerate((day.isoformat(), f"{day.year}/{day.month}/{day.day}", day)):
            d = copy.deepcopy(BASE)
            d["date" if (day.toordinal() + n) % 2 else "modified"] = v
            yield d, "meta/calendar"
        day += datetime.timedelta(days=1)


def strings(maxlen):
    for n in range(maxlen + 1):
        for t in itertools.product(VAL_ALPHA, repeat=n):
            yield "".join(t)


def shapes(v):
    """detection shapes with the value v in one slot"""
    return [
        ("map1", {"sel": {"f": v}}, "sel"),
        ("map2", {"sel": {"f": v, "g": "w"}}, "sel"),
        ("list", {"sel": {"f": [v, "w"]}}, "sel"),
        ("listmaps", {"sel": [{"f": v}, {"g": "w"}]}, "sel"),
        ("keywords", {"sel": [v, "w"]}, "sel"),
        ("keyword1", {"sel": v}, "sel"),
        ("two", {"sel": {"f": v}, "flt": {"g": ["x", "y"]}}, ["sel and not flt", "1 of them"]),
    ]


def vmech(v):
    if isinstance(v, str):
        fl = R.flat(R.parse_sigma_string(v))
        if any(c == "\\" and k + 1 < len(fl) and fl[k + 1] in ("\\", "*", "?", R.MULTI, R.SINGLE) for k, c in enumerate(fl)):
            return "backslash-before-special"
    return "plain"


def space_D(tier):
    b = BOUNDS[tier]
    for v in strings(b["vlen"]):
        for sname, dets, cond in shapes(v):
            if sname in ("keywords", "keyword1") and v == "":
                pass
            d = {"title": "t", "logsource": {"category": "c"}, "detection": dict(copy.deepcopy(dets), condition=cond)}
            yield d, f"shape/{sname}", vmech(v)
    # special values
    for v in (None, 5, 1.5, True, [], [None], ["a", None], [1, "1"], "", ["", "a"]):
        for key in ("f", "f|contains" if isinstance(v, str) else "f"):
            d = {"title": "t", "logsource": {"category": "c"}, "detection": {"sel": {key: v}, "condition": "sel"}}
            yield d, f"special/{type(v).__name__}", "empty-list" if v == [] else "plain"
    # modifier chains: singles and accepted 2-chains, on a few values
    mods = R.ALL_MODIFIERS
    for val in ("a", "a*", "-a b", "10.0.0.0/8", 5, True, "a.*b", "%x%a", "f2", ["a", "b"], "a\\%u\\%b", ["a.*b", "c?d*"]):
        for chain in itertools.chain([(m,) for m in mods], itertools.product(mods, repeat=2)):
            raw = val if isinstance(val, list) else [val]
            try:
                R.apply_chain(raw, list(chain))
            except (R.Reject, R.Unspecified):
                continue
            d = {"title": "t", "logsource": {"category": "c"}, "detection": {"sel": {"f|" + "|".join(chain): val}, "condition": "sel"}}
            yield d, "chain/" + "|".join(chain), vmech(val)


def ctx_rules():
    r1 = {"title": "r1", "id": RID + "1", "name": "rule1", "logsource": {"category": "c"}, "detection": {"sel": {"user": "a"}, "condition": "sel"}}
    r2 = {"title": "r2", "id": RID + "2", "name": "rule2", "logsource": {"category": "c"}, "detection": {"sel": {"user": "b"}, "condition": "sel"}}
    return [r1, r2]


def space_C(tier):
    types = ["event_count", "value_count", "temporal", "temporal_ordered", "value_sum", "value_avg", "value_percentile", "value_median"]
    for t in types:
        conds = [{"gte": 2}, {"lt": 10}, {"eq": 1}]
        if t.startswith("value_"):
            conds = [dict(c, field="bytes") for c in conds] + [{"gt": 1, "field": ["a", "b"]}]
        if t == "value_percentile":
            conds = [dict(c, percentile=95) for c in conds] + [dict(conds[0], percentile=0), dict(conds[0], percentile=100)]
        if t == "event_count":
            conds = conds + [{"gte": 0}]
        if t in ("temporal", "temporal_ordered"):
            conds = conds + [None, "rule1 and rule2", "rule1 and not rule2", "rule1 or (rule2 and not rule1)"]
        for cond in conds:
            for gb in (None, ["user"], ["user", "host"]):
                for al in (None, {"u": {"rule1": "a", "rule2": "b"}}):
                    for gen in (None, True, False):
                        for ts in ("5m", "1h", "30s", "2d", "1w", "1M", "1y"):
                            if ts != "5m" and (gb or al or gen is not None):
                                continue
                            c = {"type": t, "rules": ["rule1", "rule2"], "timespan": ts}
                            if cond is not None:
                                c["condition"] = cond
                            if gb:
                                c["group-by"] = gb + (["u"] if al else [])
                            if al:
                                c["aliases"] = al
                            if gen is not None:
                                c["generate"] = gen
                            d = {"title": "corr", "id": RID + "9", "name": "corr", "status": "test", "correlation": c}
                            yield "correlation", d, f"corr/{t}", "generate" if gen is not None else ("aliases" if al else "plain")
                            if isinstance(cond, str):  # rules inferred from the extended condition: no rules list in the document
                                d2 = copy.deepcopy(d)
                                d2["correlation"].pop("rules")
                                yield "correlation", d2, f"corr/{t}/rules-from-condition", "no-rules-list"
    for rules in ("any", [RID + "1"], ["rule1", "rule2"], []):
        for cond in ("flt", "not flt", "not 1 of flt*", "flt and not flt2"):
            for ls in LOGSOURCES[:3]:
                f = {"title": "flt", "id": RID + "8", "logsource": ls, "filter": {"rules": rules, "flt": {"user": "x*"}, "flt2": [{"a": 1}, {"b|contains": "c"}], "condition": cond}}
                yield "filter", f, "filter", "rules-" + type(rules).__name__


def space_H(tier):
    from checks import c12_transformations as T12

    for t in T12.catalogue():
        for rn in T12.RULES:
            yield t, rn


NSH = 32


def plan(tier, seed):
    return [("M", 0)] + [("D", i) for i in range(NSH)] + [("C", 0), ("C", 1), ("H", 0), ("H", 1)]


def run_shard(shard, tier, seed):
    res = new_result()
    sub, idx = shard
    if sub == "M":
        for d, label in space_M(tier):
            roundtrip(res, "M", "rule", d, label=label, mech="metadata")
        res["samples"].append({"sub": "M", "field": "date", "values": [str(v) for v in META["date"]]})
    elif sub == "D":
        for n, (d, label, mech) in enumerate(space_D(tier)):
            if n % NSH == idx:
                roundtrip(res, "D", "rule", d, label=label, mech=mech)
                if len(res["samples"]) < 1 and mech != "plain":
                    res["samples"].append({"sub": "D", "detection": d["detection"]})
    elif sub == "C":
        for n, (kind, d, label, mech) in enumerate(space_C(tier)):
            if n % 2 == idx:
                roundtrip(res, "C", kind, d, context=ctx_rules() if kind == "correlation" else (), label=label, mech=mech)
        res["samples"].append({"sub": "C", "types": 8})
    else:
        from checks import c12_transformations as T12
        from sigma.processing.pipeline import ProcessingPipeline

        for n, (t, rn) in enumerate(space_H(tier)):
            if n % 2 != idx:
                continue
            tn, y = t[0], t[1]
            def pre(obj, y=y):
                pipe = ProcessingPipeline.from_dict({"name": "h", "priority": 1, "vars": {"P": ["x", "y*"]}, "transformations": [dict(copy.deepcopy(y), id="t0")]})
                pipe.apply(obj)
            roundtrip(res, "H", "rule", T12.rule_doc(rn), label=f"after/{tn}/{rn}", mech=_mech_h(tn, rn), pre=pre)
        res["samples"].append({"sub": "H", "transformations": len(T12.catalogue()), "rules": list(T12.RULES)})
    return res


def _mech_h(tn, rn):
    from checks import c12_transformations as T12

    if rn == "backslash":
        return "backslash-before-special"
    mod = any("|" in str(k) for k in _item_keys(T12.rule_doc(rn)["detection"]))
    return "after-" + tn.split("-")[0] + ("+modifiers" if mod else "")


def _item_keys(d):
    if isinstance(d, dict):
        for k, v in d.items():
            if k != "condition":
                yield k
                yield from _item_keys(v)
    elif isinstance(d, list):
        for x in d:
            yield from _item_keys(x)


def replay(case):
    res = new_result()
    if case["sub"] == "H":
        from checks import c12_transformations as T12
        from sigma.processing.pipeline import ProcessingPipeline

        _, tn, rn = case["label"].split("/")
        t = next(x for x in T12.catalogue() if x[0] == tn)
        def pre(obj):
            ProcessingPipeline.from_dict({"name": "h", "priority": 1, "vars": {"P": ["x", "y*"]}, "transformations": [dict(copy.deepcopy(t[1]), id="t0")]}).apply(obj)
        roundtrip(res, "H", "rule", T12.rule_doc(rn), label=case["label"], mech=_mech_h(tn, rn), pre=pre)
    else:
        roundtrip(res, case["sub"], case["kind"], case["doc"], context=case.get("context", ()), label=case.get("label", ""), mech="replay")
        for v in res["violations"]:
            v["sig"] = v["sig"]
    return res["violations"]
