"""C09 - rule references resolve the same way whatever the document order."""
import itertools
import os
import shutil
import tempfile

import yaml

from mc import explore as E
from mc import vbackend as V
from mc.runner import add_violation, h64, new_result

PROPERTY = "C09"
LEVEL = "model_checking"
RULE = (
    "for every rule-set template (plain rules + correlation rules by name/id, chains of depth <= 3, shared and missing "
    "references, generate on/off) ALL permutations of the documents x load paths {one YAML stream, from_dicts, merge of two "
    "collections at every cut with/without prior resolution, load_ruleset from files in permutation order} are loaded and "
    "converted with the real API; state = (order of collection.rules after resolution, output/backreference pattern); "
    "invariants: identical outcome signature (exception class or {title: queries}) across all permutations and load paths, "
    "plain-rule queries equal their stand-alone conversion, emitted set equals the reference, referenced rules precede "
    "referrers, missing reference = SigmaError at load time, resolving twice changes nothing. non-trivial = permutation in "
    "which some referrer precedes a rule it references."
)
RULE += (" " + 'merge() is given a list, a generator or an iterator of the parts. Load paths include error-collecting variants (from_yaml, merge of separately loaded parts, load_ruleset with collect_errors=True; the first collected error stands for the raised one). Templates include references given only by an extended condition and generation asked for inside correlation chains.')
ASSUMPTIONS = ["reference for the emitted set: a rule emits iff it is unreferenced or referenced only by generating correlations (mixed: only order independence)",
               "correlation query text itself is judged by C10; here it must be identical across orders"]
K = V.K(correlation={"typing": True})


def rid(n):
    return f"00000000-0000-0000-0000-{n:012d}"


def plain(n, conds=None, name=True):
    d = {"title": f"r{n}", "id": rid(n), "logsource": {"category": "c"}, "detection": {"sel": {f"f{n}": f"v{n}"}, "condition": "sel"}}
    if name:
        d["name"] = f"rule{n}"
    if conds:
        d["detection"] = {"sel": {f"f{n}": f"v{n}"}, "sel2": {f"g{n}": "w"}, "condition": conds}
    return d


def corr(n, refs, generate=None, ctype="event_count"):
    c = {"type": ctype, "rules": refs, "timespan": "5m", "group-by": ["user"], "condition": {"gte": 2}}
    if ctype == "temporal":
        del c["condition"]
    if generate is not None:
        c["generate"] = generate
    return {"title": f"c{n}", "id": rid(100 + n), "name": f"corr{n}", "correlation": c}


TEMPLATES = {
    "a-by-name": [plain(1), plain(2), corr(1, ["rule1"])],
    "b-by-id": [plain(1, name=False), plain(2), corr(1, [rid(1)])],
    "c-corr-of-corr": [plain(1), corr(1, ["rule1"]), corr(2, ["corr1"]), plain(3)],
    "d-depth3": [plain(1), corr(1, ["rule1"]), corr(2, ["corr1"]), corr(3, ["corr2"]), plain(2), plain(3)],
    "e-generate-mix": [plain(1), plain(2), corr(1, ["rule1"], generate=True), corr(2, ["rule1", "rule2"], generate=False, ctype="temporal")],
    "e2-generate-all": [plain(1), plain(2), corr(1, ["rule1", "rule2"], generate=True, ctype="temporal"), plain(3)],
    "f-missing": [plain(1), corr(1, ["nope"]), plain(2)],
    "g-multi-condition": [plain(1, conds=["sel", "sel2"]), corr(1, ["rule1"]), plain(2)],
    "h-two-on-one": [plain(1), corr(1, ["rule1"]), corr(2, ["rule1"]), corr(3, ["corr1", "corr2"], ctype="temporal"), plain(2)],
}
XCORR = {"title": "c1", "id": rid(101), "name": "corr1", "correlation": {"type": "temporal", "timespan": "5m", "group-by": ["user"], "condition": "rule1 and (rule2 or not rule3)"}}
TEMPLATES["j-extended-no-rules-list"] = [plain(1), plain(2), plain(3), XCORR, corr(2, ["corr1"])]
# generation asked for in the middle of a chain: the inner rules are referenced with generation only, the middle rule without
TEMPLATES["k-generate-in-chain"] = [plain(1), plain(2), corr(1, ["rule1", "rule2"], generate=True, ctype="temporal"), corr(2, ["corr1"]), plain(3)]
TEMPLATES["l-generate-outer-of-chain"] = [plain(1), corr(1, ["rule1"]), corr(2, ["corr1"], generate=True), corr(3, ["corr2"]), plain(2)]
TEMPLATES["i-seven"] = TEMPLATES["d-depth3"] + [corr(4, ["rule2", "corr1"], generate=True, ctype="temporal")]
QUICK = ["d-depth3", "a-by-name", "b-by-id", "c-corr-of-corr", "e-generate-mix", "e2-generate-all", "f-missing", "g-multi-condition", "h-two-on-one", "j-extended-no-rules-list", "k-generate-in-chain", "l-generate-outer-of-chain"]
THOROUGH = QUICK + ["i-seven"]


def bounds(tier):
    names = QUICK if tier == "quick" else THOROUGH
    return {"templates": {n: len(TEMPLATES[n]) for n in names}, "permutations": "all", "load_paths": ["yaml", "dicts", "merge@cut(resolved|unresolved)", "load_ruleset", "yaml / merge@cut / load_ruleset with collect_errors"]}


def refs_of(doc):
    c = doc.get("correlation", {})
    if "rules" in c:
        return c["rules"]
    if isinstance(c.get("condition"), str):  # rules named only by the extended condition
        import re

        return [t for t in re.findall(r"[A-Za-z0-9_-]+", c["condition"]) if t not in ("and", "or", "not")]
    return []


def key_of(doc):
    return {doc.get("name"), doc.get("id")} - {None}


def reference_emitted(docs):
    """titles that must emit / must not emit / unspecified(mixed)"""
    emit, noemit, mixed = set(), set(), set()
    for d in docs:
        referrers = [c for c in docs if any(r in key_of(d) for r in refs_of(c))]
        gens = [bool(c["correlation"].get("generate", False)) for c in referrers]
        if not referrers or all(gens):
            emit.add(d["title"])
        elif not any(gens):
            noemit.add(d["title"])
        else:
            mixed.add(d["title"])
    return emit, noemit, mixed


def load(docs, path, tmpdir):
    import copy

    from sigma.collection import SigmaCollection

    docs = copy.deepcopy(docs)
    kind = path[0]
    if kind == "yaml":
        return SigmaCollection.from_yaml(yaml.safe_dump_all(docs, sort_keys=False))
    if kind == "dicts":
        return SigmaCollection.from_dicts(docs)
    if kind == "merge":
        cut, resolved = path[1], path[2]
        a = SigmaCollection.from_dicts(docs[:cut], resolve_references=False)
        b = SigmaCollection.from_dicts(docs[cut:], resolve_references=False)
        if resolved:  # prior resolution of the parts that can be resolved on their own
            for c in (a, b):
                try:
                    c.resolve_rule_references()
                except Exception:
                    pass
        # merge() takes any iterable of collections: a list for one variant, a one-shot generator for the other
        return SigmaCollection.merge((c for c in (a, b)) if resolved else [a, b])
    if kind in ("yaml-c", "files-c", "merge-c"):
        # error collecting variants: the collected errors stand for the exception strict loading raises
        if kind == "yaml-c":
            coll = SigmaCollection.from_yaml(yaml.safe_dump_all(docs, sort_keys=False), collect_errors=True)
        elif kind == "merge-c":
            cut = path[1]
            text = lambda ds: yaml.safe_dump_all(ds, sort_keys=False)
            a = SigmaCollection.from_yaml(text(docs[:cut]), collect_errors=True, resolve_references=False)
            b = SigmaCollection.from_yaml(text(docs[cut:]), collect_errors=True, resolve_references=False)
            coll = SigmaCollection.merge(iter([a, b]))
        else:
            paths = []
            for i, d in enumerate(docs):
                p = os.path.join(tmpdir, f"{path[1]}_{i}.yml")
                with open(p, "w") as f:
                    yaml.safe_dump(d, f, sort_keys=False)
                paths.append(p)
            coll = SigmaCollection.load_ruleset(paths, collect_errors=True)
        if coll.errors:
            raise coll.errors[0]
        return coll
    if kind == "files":
        paths = []
        for i, d in enumerate(docs):
            p = os.path.join(tmpdir, f"{path[1]}_{i}.yml")
            with open(p, "w") as f:
                yaml.safe_dump(d, f, sort_keys=False)
            paths.append(p)
        return SigmaCollection.load_ruleset(paths)
    raise ValueError(path)


def observe(docs, path, tmpdir):
    """load + convert; returns (signature, order_ok, detail)"""
    from sigma.exceptions import SigmaError

    try:
        coll = load(docs, path, tmpdir)
    except SigmaError as e:
        return ("load-error", type(e).__name__), None
    except Exception as e:
        return ("load-crash", type(e).__name__, str(e)[:150]), None
    order1 = [r.title for r in coll.rules]
    # referenced before referrer
    pos = {t: i for i, t in enumerate(order1)}
    order_ok = True
    for d in docs:
        for c in docs:
            if any(r in key_of(d) for r in refs_of(c)):
                if d["title"] in pos and c["title"] in pos and pos[d["title"]] > pos[c["title"]]:
                    order_ok = False
    out1 = [(r.title, r._output) for r in coll.rules]
    try:
        coll.resolve_rule_references()
        idem = [(r.title, r._output) for r in coll.rules] == out1 or sorted((r.title, r._output) for r in coll.rules) == sorted(out1)
    except Exception as e:
        idem = False
    cls = V.make_backend_class(K)
    b = cls()
    per = {}
    try:
        b.init_processing_pipeline()
        flat_expected = []
        for r in coll.rules:
            from sigma.rule import SigmaRule

            qs = b.convert_rule(r) if isinstance(r, SigmaRule) else b.convert_correlation_rule(r)
            per[r.title] = list(qs)
            flat_expected.extend(qs)
        sig = ("ok", tuple(sorted((t, tuple(q)) for t, q in per.items())))
    except (SigmaError, NotImplementedError) as e:
        sig = ("convert-error", type(e).__name__, str(e)[:120])
    except Exception as e:
        sig = ("convert-crash", type(e).__name__, str(e)[:150])
    # public API on a second, fresh load must give the same flat list
    api = None
    if sig[0] == "ok":
        try:
            coll2 = load(docs, path, tmpdir)
            api = cls().convert(coll2)
            if sorted(api) != sorted(flat_expected):
                sig = ("api-differs", tuple(api), tuple(flat_expected))
        except Exception as e:
            sig = ("api-error", type(e).__name__, str(e)[:120])
    return sig, {"order": order1, "order_ok": order_ok, "idempotent": idem, "outputs": out1}


def standalone(doc):
    from sigma.rule import SigmaRule

    return tuple(V.make_backend_class(K)().convert_rule(SigmaRule.from_dict(doc)))


def paths_for(n, tag):
    ps = [("yaml",), ("dicts",), ("files", tag), ("yaml-c",), ("files-c", tag)]
    for cut in range(1, n):
        ps.append(("merge", cut, False))
        ps.append(("merge", cut, True))
        ps.append(("merge-c", cut))
    return ps


def judge_template(res, st, name, perms, tmpdir):
    docs = TEMPLATES[name]
    emit, noemit, mixed = reference_emitted(docs)
    missing = any(r not in set().union(*[key_of(d) for d in docs]) for c in docs for r in refs_of(c))
    sigs = {}
    for pi, perm in perms:
        pdocs = [docs[i] for i in perm]
        referrer_first = any(perm.index(ci) < perm.index(di) for di, d in enumerate(docs) for ci, c in enumerate(docs) if any(r in key_of(d) for r in refs_of(c)))
        for path in paths_for(len(docs), f"{name}_{pi}"):
            sig, info = observe(pdocs, path, tmpdir)
            res["evaluations"] += 1
            st.history()
            st.transition(3)
            st.state([name, info["order"] if info else None, info["outputs"] if info else None, sig[0]])
            case = {"template": name, "perm": list(perm), "path": list(path)}
            if referrer_first:
                res["nontrivial"].add(h64(case))
            res["outcomes"].add(h64(sig[:2] if sig[0] != "ok" else ["ok", name]))
            pk = path[0] + ("-resolved" if path[0] == "merge" and path[2] else "")
            if missing:
                if sig[0] != "load-error":
                    add_violation(res, f"missing-reference-not-a-load-error:{sig[0]}:{pk}", case, "SigmaError at load time", sig[:3])
                continue
            if sig[0] != "ok":
                add_violation(res, f"{sig[0]}:{sig[1] if len(sig) > 1 and isinstance(sig[1], str) else ''}:{pk}", case, "conversion succeeds (it does for the dependency order)", [str(x)[:200] for x in sig[1:]])
                continue
            if not info["order_ok"]:
                add_violation(res, f"referrer-before-referenced:{pk}", case, "referenced rules first", info["order"])
            if not info["idempotent"]:
                add_violation(res, f"second-resolution-changes-state:{pk}", case, "no change", info["outputs"])
            per = dict(sig[1])
            for d in docs:
                t = d["title"]
                got = per.get(t, ())
                if t in emit and not got:
                    add_violation(res, f"rule-must-emit-but-does-not:{'corr' if 'correlation' in d else 'plain'}:{pk}", case, t, got)
                if t in noemit and got:
                    add_violation(res, f"rule-must-not-emit-but-does:{'corr' if 'correlation' in d else 'plain'}:{pk}", case, t, got)
                if "correlation" not in d and got and got != standalone(d):
                    add_violation(res, f"plain-rule-query-differs-from-standalone:{pk}", case, standalone(d), got)
            sigs.setdefault(sig, []).append(case)
    return sigs


NSH = 16


def plan(tier, seed):
    names = QUICK if tier == "quick" else THOROUGH
    return [(n, k) for n in names for k in range(NSH)] + [("cross", n) for n in names]


def run_shard(shard, tier, seed):
    res = new_result()
    st = E.Stats(res)
    tmpdir = tempfile.mkdtemp(prefix="c09_")
    try:
        if shard[0] == "cross":
            # order independence across permutations: compare every permutation's signature (yaml path) with the identity's
            name = shard[1]
            docs = TEMPLATES[name]
            allp = list(enumerate(itertools.permutations(range(len(docs)))))
            base = None
            for pi, perm in allp:
                sig, info = observe([docs[i] for i in perm], ("dicts",), tmpdir)
                res["evaluations"] += 1
                st.history()
                st.transition(3)
                s = sig if sig[0] == "ok" else sig[:2]
                if base is None:
                    base = s
                elif s != base:
                    add_violation(res, f"outcome-depends-on-order:{base[0]}->{s[0]}", {"template": name, "perm": list(perm), "path": ["dicts"]}, str(base)[:300], str(s)[:300])
                res["outcomes"].add(h64(str(s)[:50]))
            st.state([name, "cross"])
            return res
        name, k = shard
        docs = TEMPLATES[name]
        allp = [(pi, p) for pi, p in enumerate(itertools.permutations(range(len(docs)))) if pi % NSH == k]
        judge_template(res, st, name, allp, tmpdir)
        if allp and len(res["samples"]) < 1:
            res["samples"].append({"template": name, "perm": list(allp[-1][1]), "titles": [docs[i]["title"] for i in allp[-1][1]]})
    finally:
        shutil.rmtree(tmpdir, ignore_errors=True)
    return res


def replay(case):
    res = new_result()
    st = E.Stats(res)
    tmpdir = tempfile.mkdtemp(prefix="c09_")
    try:
        perm = tuple(case["perm"])
        full = judge_template.__wrapped__ if hasattr(judge_template, "__wrapped__") else None
        docs = TEMPLATES[case["template"]]
        # replay exactly this permutation with all load paths, keep the violations of the recorded path
        judge_template(res, st, case["template"], [(0, perm)], tmpdir)
    finally:
        shutil.rmtree(tmpdir, ignore_errors=True)
    return [v for v in res["violations"] if v["case"].get("path") == case["path"]]
