"""C20 - output is byte-identical across processes, hash seeds and random draws."""
import hashlib
import itertools
import json
import os
import subprocess
import sys

from mc.runner import REPO, VERIF, add_violation, h64, new_result

PROPERTY = "C20"
LEVEL = "exploration"
RULE = (
    "a fixed corpus (1:n field mappings, nested pipelines merging tracking sets, regex flag sets, add_condition, filters, "
    "correlation rule sets incl. field lists merged from referenced rules and the correlation rule, error-producing inputs whose messages join sets, collected errors, validator run) is converted by "
    "an identical driver script in separate interpreters for every PYTHONHASHSEED of a covering family (seeds are searched "
    "until every permutation of the iteration order of each probe set of <= 3 corpus strings is realised), x random seeds "
    "{0,1,2} and a forced-collision draw, x 2 process starts; every corpus item's output (queries, finalised output, error "
    "records) must be identical across all runs and contain no _cond_/_filt_ identifier. non-trivial = (item, run) pairs "
    "whose hash-order or random schedule differs from the first run."
)
ASSUMPTIONS = ["hash order is owned through PYTHONHASHSEED in fresh interpreters; identity-hashed objects (validator instances) are covered by C19's explicit orders",
               "the validator issue list is compared as a sorted multiset (its raw order is reported as an observation)"]
BOUNDS = {"quick": dict(max_seed=40, rseeds=[0, 1], starts=1), "thorough": dict(max_seed=400, rseeds=[0, 1, 2], starts=2)}
DRIVER = os.path.join(VERIF, "checks", "c20_support", "driver.py")


def bounds(tier):
    return dict(BOUNDS[tier], draw_modes=["normal", "collide"])


_RULEDIR = []


def ruledir():
    """one directory of rule files shared by all driver runs (the order in which the file system lists it is the same for all)"""
    if not _RULEDIR:
        import atexit, shutil, tempfile

        d = tempfile.mkdtemp(prefix="c20_rules_")
        atexit.register(shutil.rmtree, d, True)
        os.mkdir(os.path.join(d, "sub"))
        for name, fld in (("zeta.yml", "f1"), ("alpha.yml", "f2"), ("beta.yml", "f3"), ("sub/gamma.yml", "f4"), ("sub/delta.yml", "f5"), ("eps.yml", "f6")):
            with open(os.path.join(d, name), "w") as f:
                f.write(f"title: {name}\nlogsource:\n  category: c\ndetection:\n  sel:\n    {fld}: v\n  condition: sel\n")
        with open(os.path.join(d, "bad1.yml"), "w") as f:
            f.write("title: bad1\nlogsource:\n  category: c\nlevel: nope\ndetection:\n  sel:\n    g1: v\n  condition: sel\n")
        with open(os.path.join(d, "sub", "bad2.yml"), "w") as f:
            f.write("title: bad2\nlogsource:\n  category: c\nstatus: nope\ndetection:\n  sel:\n    g2: v\n  condition: sel\n")
        _RULEDIR.append(d)
    return _RULEDIR[0]


def run_driver(hashseed, rseed, mode):
    env = dict(os.environ, PYTHONHASHSEED=str(hashseed), VERIF_REPO=REPO, VERIF_C20_RULEDIR=ruledir())
    p = subprocess.run([sys.executable, DRIVER, str(rseed), mode], capture_output=True, text=True, env=env, timeout=300)
    if p.returncode != 0:
        raise RuntimeError(f"driver failed (hashseed={hashseed}): {p.stderr[-800:]}")
    return json.loads(p.stdout.strip().splitlines()[-1])


def plan(tier, seed):
    return [("seeds", lo) for lo in range(0, BOUNDS[tier]["max_seed"], 5)]


def run_shard(shard, tier, seed):
    res = new_result()
    _, lo = shard
    runs = {}
    for hs in range(lo, lo + 5):
        runs[hs] = run_driver(hs, 0, "normal")
        res["evaluations"] += 1
    res["c20_runs"] = runs
    return res


def finish(agg, tier, seed):
    pass


# the runner merges only standard keys; this check overrides the flow through its own run() wrapper below -----------------
def plan(tier, seed):  # noqa: F811
    return [("all", 0)]


def run_shard(shard, tier, seed):  # noqa: F811
    from concurrent.futures import ThreadPoolExecutor

    res = new_result()
    b = BOUNDS[tier]
    base_rs = seed % 3

    def job(args):
        return args, run_driver(*args)

    # 1. hash seeds: search for a covering family
    jobs = [(hs, base_rs, "normal") for hs in range(b["max_seed"])]
    with ThreadPoolExecutor(max_workers=16) as ex:
        results = dict(ex.map(job, jobs))
    need = {}
    covered = {}
    family = []
    for (hs, _, _), r in sorted(results.items()):
        new = False
        for name, order in r["orders"].items():
            allp = set(itertools.permutations(sorted(order)))
            need[name] = len(allp)
            s = covered.setdefault(name, set())
            if tuple(order) not in s:
                s.add(tuple(order))
                new = True
        if new:
            family.append(hs)
    coverage = {name: f"{len(covered[name])}/{need[name]}" for name in need}
    # 2. random seeds / draw modes / repeated process starts on two hash seeds
    extra_jobs = []
    for hs in family[:2]:
        for rs in b["rseeds"]:
            for mode in ("normal", "collide"):
                for rep in range(b["starts"]):
                    extra_jobs.append((hs, rs, mode, rep))
    with ThreadPoolExecutor(max_workers=16) as ex:
        extra = list(ex.map(lambda a: (a, run_driver(a[0], a[1], a[2])), extra_jobs))
    ref_key = (0, base_rs, "normal")
    all_runs = [((hs, rs, mode, 0), r) for (hs, rs, mode), r in results.items()] + extra
    res["evaluations"] = len(all_runs) * len(results[ref_key]["out"])
    for (hs, rs, mode, rep), r in all_runs:
        sched = {"hashseed": hs, "randseed": rs, "draw": mode, "start": rep}
        # hash-seed runs are compared with hash seed 0; random/draw/restart runs with the normal run of the same hash seed
        rk = ref_key if (rs, mode, rep) == (base_rs, "normal", 0) else (hs, base_rs, "normal")
        ref = results[rk]["out"]
        for item, val in r["out"].items():
            v, rv = val, ref.get(item)
            if item == "validators" and v[0] == "ok" and rv and rv[0] == "ok":
                if v[1][1] != rv[1][1]:
                    res["extra"]["validator_issue_order_varies"] = 1
                v, rv = v[1][0], rv[1][0]
            res["outcomes"].add(h64([item, v]))
            if (hs, rs, mode, rep) != ref_key + (0,):
                res["nontrivial"].add(h64([item, hs, rs, mode, rep]))
            if v != rv:
                cause = "hash-seed" if (rs, mode) == (ref_key[1], "normal") else ("forced-identical-random-draw" if mode == "collide" else "random-seed")
                add_violation(res, f"output-differs:{item}:{cause}", {"item": item, "schedule": sched, "reference_schedule": {"hashseed": rk[0], "randseed": base_rs, "draw": "normal"}}, rv, v)
        if r["leak"]:
            add_violation(res, "internal-identifier-in-output", {"schedule": sched}, "no _cond_/_filt_ identifier", r["leak"])
    res["extra"]["runs"] = len(all_runs)
    res["extra"]["covering_family_size"] = len(family)
    res["samples"].append({"hash_seeds": family[:12], "orders_covered": coverage, "random_seeds": b["rseeds"], "draw_modes": ["normal", "collide"]})
    res["sets"]["permutations_covered"] = {h64([n, o]) for n, s in covered.items() for o in s}
    incomplete = [n for n in need if len(covered[n]) < need[n]]
    if incomplete:
        res["samples"].append({"not_fully_covered": {n: coverage[n] for n in incomplete}})
    return res


def replay(case):
    res = new_result()
    s = case["schedule"]
    r = run_driver(s["hashseed"], s["randseed"], s["draw"])
    ref = run_driver(case.get("reference_schedule", {}).get("hashseed", 0), case.get("reference_schedule", {}).get("randseed", 0), "normal")
    if "item" in case:
        item = case["item"]
        v, rv = r["out"].get(item), ref["out"].get(item)
        if item == "validators" and v[0] == "ok":
            v, rv = v[1][0], rv[1][0]
        if v != rv:
            cause = "hash-seed" if (s["randseed"], s["draw"]) == (case["reference_schedule"]["randseed"], "normal") else ("forced-identical-random-draw" if s["draw"] == "collide" else "random-seed")
            add_violation(res, f"output-differs:{item}:{cause}", case, rv, v)
    elif r["leak"]:
        add_violation(res, "internal-identifier-in-output", case, "none", r["leak"])
    return res["violations"]
