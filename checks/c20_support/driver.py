"""C20 driver: executed in a separate interpreter per (PYTHONHASHSEED, random seed, draw mode); prints one JSON object
{corpus item: sha256/repr of its output}. Imports sigma from VERIF_REPO (default /repo)."""
import hashlib
import json
import os
import random
import re
import sys

REPO = os.environ.get("VERIF_REPO", "/repo")
sys.path.insert(0, REPO)
sys.path.insert(0, os.path.dirname(os.path.dirname(os.path.dirname(os.path.abspath(__file__)))))

rseed = int(sys.argv[1])
mode = sys.argv[2]  # normal | collide
random.seed(rseed)
if mode == "collide":
    _orig = random.choices
    random.choices = lambda population, *a, k=1, **kw: ["a"] * k  # every internal identifier drawn identically

from sigma.collection import SigmaCollection  # noqa: E402
from sigma.exceptions import SigmaError  # noqa: E402
from sigma.processing.pipeline import ProcessingPipeline  # noqa: E402
from sigma.rule import SigmaRule  # noqa: E402
from mc import vbackend as V  # noqa: E402

out = {}


def rec(name, fn):
    try:
        v = fn()
        out[name] = ("ok", v)
    except SigmaError as e:
        out[name] = ("sigma-error", type(e).__name__, str(e))
    except Exception as e:
        out[name] = ("error", type(e).__name__, str(e))


def rule(det, cond="sel", **kw):
    d = {"title": "t", "logsource": {"category": "c", "product": "windows"}, "detection": dict(det, condition=cond)}
    d.update(kw)
    return d


def conv(pipe, rules, k=None, collect=True):
    cls = V.make_backend_class(k or V.K())
    b = cls(ProcessingPipeline.from_dict(pipe) if pipe else None, collect_errors=collect)
    qs = b.convert(SigmaCollection.from_dicts(rules))
    return [qs, [(type(e).__name__, str(e)) for _, e in b.errors]]


P_MAP = {"name": "m", "priority": 1, "transformations": [{"id": "m1", "type": "field_name_mapping", "mapping": {"f1": ["g1", "g2", "g3"], "f2": ["h1", "h2"]}}]}
rec("mapping_1n", lambda: conv(P_MAP, [rule({"sel": {"f1": "a", "f2": "b", "f3|fieldref": "f1"}}, fields=["f1", "f2"])]))
P_NEST = {"name": "n", "priority": 1, "transformations": [
    {"id": "n1", "type": "nest", "items": [{"id": "i1", "type": "field_name_mapping", "mapping": {"f1": ["g1", "g2"]}}, {"id": "i2", "type": "field_name_suffix", "suffix": "_s"}]},
    {"id": "n2", "type": "nest", "items": [{"id": "i3", "type": "field_name_prefix", "prefix": "p."}]},
    {"id": "after", "type": "field_name_suffix", "suffix": "_t", "field_name_conditions": [{"type": "processing_item_applied", "processing_item_id": "i2"}]}]}
rec("nested_tracking", lambda: conv(P_NEST, [rule({"sel": {"f1": "a", "f2": "b"}}, fields=["f1", "f2", "f9"])]))
rec("regex_flags", lambda: conv(None, [rule({"sel": {"f1|re|i|m|s": "a.*", "f2|re|s|i": "b"}})], V.K(re_flag_prefix=True)))
def conv_few_flags(collect):
    """a backend that supports only the i flag converts expressions with several unsupported flags"""
    from sigma.types import SigmaRegularExpressionFlag

    base = V.make_backend_class(V.K(re_flag_prefix=True))
    cls = type("C20FewFlags", (base,), {"re_flags": {SigmaRegularExpressionFlag.IGNORECASE: "i"}})
    b = cls(None, collect_errors=collect)
    qs = b.convert(SigmaCollection.from_dicts([rule({"sel": {"f1|re|m|s": "a.*"}}), rule({"sel": {"f2|re|i|s|m": "b"}}), rule({"sel": {"f3|re|i": "c"}})]))
    return [qs, [(type(e).__name__, str(e)) for _, e in b.errors]]


rec("error_regex_flags_unsupported", lambda: conv_few_flags(False))
rec("error_regex_flags_unsupported_collected", lambda: conv_few_flags(True))
P_COND = {"name": "c", "priority": 1, "transformations": [{"id": "c1", "type": "add_condition", "conditions": {"src": "one"}}, {"id": "c2", "type": "add_condition", "conditions": {"idx": "two"}, "negated": True}]}
rec("add_condition", lambda: conv(P_COND, [rule({"sel": {"f1": "a"}}), rule({"sel": {"f1": "b"}, "flt": {"f2": "c"}}, "sel and not flt")]))
FILTERS = [rule({"sel": {"f1": "a"}, "sel2": {"f2": "b"}}, "1 of sel*", id="11111111-1111-4111-8111-111111111111"),
           {"title": "flt", "logsource": {"category": "c"}, "filter": {"rules": "any", "out": {"user": "x"}, "out2": {"host": "y"}, "condition": "not 1 of out*"}},
           {"title": "flt2", "logsource": {"product": "windows"}, "filter": {"rules": ["11111111-1111-4111-8111-111111111111"], "flt": {"img": "z"}, "condition": "not flt"}}]
rec("filters", lambda: conv(None, FILTERS))
FILTERS_THEM = [rule({"sel": {"f1": "a"}}, "sel"),
                {"title": "fa", "logsource": {"category": "c"}, "filter": {"rules": "any", "a1": {"user": "x"}, "a2": {"host": "y"}, "condition": "not 1 of them"}},
                {"title": "fb", "logsource": {"category": "c"}, "filter": {"rules": "any", "b1": {"img": "z"}, "condition": "all of them"}}]
rec("filters_them", lambda: conv(None, FILTERS_THEM))
CORR = [rule({"sel": {"f1": "a"}}, name="r1", title="r1"), rule({"sel": {"f2": "b"}}, name="r2", title="r2"),
        {"title": "c1", "name": "c1", "correlation": {"type": "temporal", "rules": ["r1", "r2"], "timespan": "5m", "group-by": ["user", "host"], "aliases": {"user": {"r1": "u1", "r2": "u2"}}}},
        {"title": "c2", "correlation": {"type": "event_count", "rules": ["c1"], "timespan": "1h", "group-by": ["host"], "condition": {"gte": 3}}}]
rec("correlation", lambda: conv(P_MAP, CORR, V.K(correlation={"typing": True})))
# referenced rules and the correlation rule each carry a fields list: the field list of the query is their ordered union minus group-by
CORRFLD = [rule({"sel": {"f1": "a"}}, name="r1", title="r1", fields=["fa", "fb", "user", "fq"]), rule({"sel": {"f2": "b"}}, name="r2", title="r2", fields=["fb", "fc"]),
           {"title": "cf1", "name": "cf1", "fields": ["zz", "fa", "yy", "xx", "ww", "host", "vv", "uu"],
            "correlation": {"type": "event_count", "rules": ["r1", "r2"], "timespan": "5m", "group-by": ["user", "host"], "condition": {"gte": 2}}},
           {"title": "cf2", "fields": ["k3", "k1", "k2"], "correlation": {"type": "temporal", "rules": ["r1", "r2"], "timespan": "5m", "group-by": ["fb"]}}]
rec("correlation_fields", lambda: conv(None, CORRFLD, V.K(correlation={"typing": True})))
XCORR = [rule({"sel": {"f1": "a"}}, name="ra", title="ra"), rule({"sel": {"f2": "b"}}, name="rb", title="rb"), rule({"sel": {"f3": "c"}}, name="rc", title="rc"),
         rule({"sel": {"f4": "d"}}, name="rd", title="rd"),
         {"title": "x1", "correlation": {"type": "temporal", "timespan": "5m", "group-by": ["user"], "condition": "(ra and rb) or (ra and rc) or (rd and rb)"}},
         {"title": "x2", "correlation": {"type": "temporal_ordered", "rules": ["rc", "ra", "rb"], "timespan": "5m", "condition": "rc and (ra or rb) and not (ra and rc)"}}]
rec("correlation_extended", lambda: conv(None, XCORR, V.K(correlation={"typing": True})))
rec("error_corr_unknown_keys", lambda: SigmaCollection.from_dicts([{"title": "c", "correlation": {"type": "event_count", "rules": ["x"], "timespan": "5m", "condition": {"gte": 1, "zeta": 1, "alpha": 2, "beta": 3}}}]))
rec("error_pipeline_unreferenced", lambda: ProcessingPipeline.from_dict({"name": "e", "priority": 1, "transformations": [{"type": "field_name_suffix", "suffix": "x", "rule_conditions": {
    "c_zeta": {"type": "is_sigma_rule"}, "c_alpha": {"type": "is_sigma_rule"}, "c_beta": {"type": "is_sigma_rule"}, "used": {"type": "is_sigma_rule"}}, "rule_cond_expr": "used"}]}))
rec("error_pipeline_unknown_keys", lambda: ProcessingPipeline.from_dict({"name": "e", "priority": 1, "zeta": 1, "alpha": 2, "beta": 3, "transformations": []}))
rec("error_pipeline_item_unknown_keys", lambda: ProcessingPipeline.from_dict({"name": "e", "priority": 1, "transformations": [{"type": "field_name_suffix", "suffix": "x", "zeta": 1, "alpha": 2, "beta": 3}]}))
rec("error_collect", lambda: conv(P_MAP, [rule({"sel": {"f1|expand": "%nope%"}}), rule({"sel": {"f1|cased": "A"}}), rule({"sel": {"f1": "a"}}, "sel and missing")], V.K(templates=frozenset(V.ALL_TEMPLATES) - {"cs"})))
rec("error_load_collect", lambda: [[type(e).__name__ + ":" + str(e) for e in SigmaCollection.from_dicts([{"title": 5, "id": "x", "level": "nope", "status": [], "tags": ["bad tag"], "detection": {"sel": {"f|contains": None}, "condition": "sel"}}], collect_errors=True).errors]])
P_STRICT = {"name": "s", "priority": 1, "transformations": [{"id": "m", "type": "field_name_mapping", "mapping": {"f1": "g1"}}, {"id": "strict", "type": "strict_field_mapping_failure"}]}
rec("error_strict_mapping", lambda: conv(P_STRICT, [rule({"sel": {"f1": "a", "zeta": "b", "alpha": "c", "beta": "d"}})]))
rec("error_modifier_type_regex", lambda: conv(None, [rule({"sel": {"f1|re|i|m|s|base64": "a.*"}})]))
rec("error_modifier_type_regex_load", lambda: [[type(e).__name__ + ":" + str(e) for e in SigmaCollection.from_dicts([rule({"sel": {"f1|re|m|i|s|contains|wide": "a.*"}})], collect_errors=True).errors]])
FILTER_UNDEF = [rule({"sel": {"f1": "a"}}, "sel"),
                {"title": "fu", "logsource": {"category": "c"}, "filter": {"rules": "any", "flt": {"user": "x"}, "condition": "not nosuch"}}]
rec("error_filter_undefined_name", lambda: conv(None, FILTER_UNDEF))
rec("error_filter_undefined_name_load", lambda: [[type(e).__name__ + ":" + str(e) for e in SigmaCollection.from_dicts(FILTER_UNDEF, collect_errors=True).errors]])
FILTER_RULE_NAME = [rule({"selection": {"f1": "a"}, "exclusion": {"f2": "b"}}, "selection and not exclusion"),
                    {"title": "fr", "logsource": {"category": "c"}, "filter": {"rules": "any", "flt": {"user": "x"}, "condition": "selection and not flt"}}]
rec("error_filter_names_rule_detection", lambda: conv(None, FILTER_RULE_NAME))
rec("error_filter_names_rule_detection_load", lambda: [[type(e).__name__ + ":" + str(e) for e in SigmaCollection.from_dicts(FILTER_RULE_NAME, collect_errors=True).errors]])
GLOBAL_DOCS = [{"action": "global", "title": "g", "logsource": {"category": "c", "product": "windows"},
                "detection": {"sel_zeta": {"f1": "a"}, "sel_alpha": {"f2": "b"}, "sel_beta": {"f3": "c"}, "flt_1": {"f4": "d"}}},
               {"detection": {"sel_own": {"f5": "e"}, "condition": "1 of sel_* and not 1 of flt_*"}},
               {"action": "repeat", "detection": {"sel_gamma": {"f6": "f"}, "sel_delta": {"f7": "g"}, "condition": "all of them"}}]
rec("collection_global_repeat", lambda: conv(None, GLOBAL_DOCS))
FILTER_UNDEF3 = [rule({"sel": {"f1": "a"}}, "sel"),
                 {"title": "f3", "logsource": {"category": "c"}, "filter": {"rules": "any", "flt": {"user": "x"}, "condition": "not flt and not (zeta or alpha or beta)"}}]
rec("error_filter_three_undefined_names", lambda: conv(None, FILTER_UNDEF3))
rec("error_filter_three_undefined_names_load", lambda: [[type(e).__name__ + ":" + str(e) for e in SigmaCollection.from_dicts(FILTER_UNDEF3, collect_errors=True).errors]])
# a rule condition naming an undefined detection, reported after a pipeline / a filter has added their own (randomly named) detections
UNDEF_RULES = [rule({"sel": {"f1": "a"}, "zeta": {"f2": "b"}}, "sel and nosuch"), rule({"sel": {"f1": "a"}}, ["sel", "sel or nosuch2"])]
rec("error_undefined_detection_after_add_condition", lambda: conv(P_COND, UNDEF_RULES))
rec("error_undefined_detection_after_add_condition_raised", lambda: conv(P_COND, UNDEF_RULES, collect=False))
rec("error_undefined_detection_after_filter", lambda: conv(None, UNDEF_RULES + FILTERS[1:2] + FILTERS_THEM[1:]))
rec("error_undefined_detection_after_filter_and_add_condition", lambda: conv(P_COND, UNDEF_RULES + FILTERS[1:2], collect=False))
# a correlation rule over a rule that failed after the pipeline had added a condition and mapped fields: its error names the rule
P_CORRFAIL = {"name": "cf", "priority": 1, "transformations": [
    {"id": "zeta", "type": "add_condition", "conditions": {"src": "one"}, "rule_conditions": [{"type": "is_sigma_rule"}]},
    {"id": "alpha", "type": "field_name_mapping", "mapping": {"f1": "g1"}}, {"id": "beta", "type": "field_name_suffix", "suffix": "_s"},
    {"id": "fail", "type": "rule_failure", "message": "nope", "rule_conditions": [{"type": "logsource", "category": "c"}, {"type": "is_sigma_rule"}]}]}
CORRFAIL = [rule({"sel": {"f1": "a"}}, name="rf", title="rf"),
            {"title": "cf", "name": "cf", "correlation": {"type": "event_count", "rules": ["rf"], "timespan": "5m", "group-by": ["u"], "condition": {"gte": 2}}}]
rec("error_correlation_over_failed_rule", lambda: conv(P_CORRFAIL, CORRFAIL, V.K(correlation={"typing": True})))
rec("error_correlation_over_failed_rule_raised", lambda: V.make_backend_class(V.K(correlation={"typing": True}))(ProcessingPipeline.from_dict(P_CORRFAIL), collect_errors=True).convert_correlation_rule(
    (lambda c: (c.resolve_rule_references(), c.rules[-1])[1])(SigmaCollection.from_dicts(CORRFAIL))))
P_HASH = {"name": "h", "priority": 1, "transformations": [{"id": "h", "type": "hashes_fields", "valid_hash_algos": ["SHA256", "MD5", "SHA1", "IMPHASH"], "field_prefix": "File"}]}
rec("error_hashes_unknown_algorithm", lambda: conv(P_HASH, [rule({"sel": {"Hashes|contains": "CRC32=abcdef01"}}), rule({"sel": {"Hashes|contains": ["MD5=0123456789abcdef0123456789abcdef", "IMPHASH=0123456789abcdef0123456789abcdef"]}})]))
FILTER_PATTERN_UNDEF = [rule({"sel": {"f1": "a"}}, "sel"),
                        {"title": "fp", "logsource": {"category": "c"}, "filter": {"rules": "any", "flt_a": {"user": "x"}, "flt_b": {"host": "y"}, "condition": "not 1 of flt_* and not nosuch"}},
                        {"title": "ft", "logsource": {"category": "c"}, "filter": {"rules": "any", "o1": {"img": "z"}, "condition": "not 1 of them or nosuch2"}}]
rec("error_filter_pattern_and_undefined_name", lambda: conv(None, FILTER_PATTERN_UNDEF[:2]))
rec("error_filter_them_and_undefined_name", lambda: conv(None, [FILTER_PATTERN_UNDEF[0], FILTER_PATTERN_UNDEF[2]]))
rec("error_filter_pattern_and_undefined_name_load", lambda: [[type(e).__name__ + ":" + str(e) for e in SigmaCollection.from_dicts(FILTER_PATTERN_UNDEF, collect_errors=True).errors]])


def ruleset():
    from pathlib import Path

    d = os.environ.get("VERIF_C20_RULEDIR")
    if not d:
        return "no rule directory"
    coll = SigmaCollection.load_ruleset([Path(d)], collect_errors=True)
    b = V.make_backend_class(V.K())(None, collect_errors=True)
    return [b.convert(coll), [r.title for r in coll.rules], [type(e).__name__ + ":" + str(e).replace(d, "<dir>") for r in coll.rules for e in r.errors]]


rec("load_ruleset_directory", ruleset)
rec("to_dict_after_pipeline", lambda: (lambda r: (ProcessingPipeline.from_dict(P_MAP).apply(r), r.fields, sorted(r.detection.detections))[1:])(SigmaRule.from_dict(rule({"sel": {"f1": "a", "f2": "b"}}, fields=["f1", "f2"]))))


def validators():
    from sigma.validation import SigmaValidator
    from sigma.validators.core import validators as vs

    v = SigmaValidator([c for n, c in vs.items() if n not in ("attacktag", "d3_fendtag")])
    rules = SigmaCollection.from_dicts([rule({"sel": {"f1": "*a*", "f2": "1"}, "unused": {"f": "x"}}, "1 of zz* or sel", tags=["attack.t1", "attack.t1"]), rule({"sel": {"f": "a"}}, title="t")])
    issues = [str(i) for i in v.validate_rules(iter(rules))]
    return [sorted(issues), hashlib.sha256("\n".join(issues).encode()).hexdigest()]


rec("validators", validators)

# probe of set iteration orders realised by this hash seed (coverage measurement, not judged)
probe_sets = {"refs3": ["ra", "rb", "rc"], "kw3": ["zeta", "alpha", "beta"], "ids3": ["c_zeta", "c_alpha", "c_beta"], "g3": ["g1", "g2", "g3"], "flags3": ["i", "m", "s"], "h2": ["h1", "h2"], "unm3": ["zeta", "alpha", "beta"], "flagnames3": ["IGNORECASE", "MULTILINE", "DOTALL"], "dets3": ["sel_zeta", "sel_alpha", "sel_beta"], "algos3": ["SHA256", "MD5", "SHA1"]}
orders = {k: list(set(v)) for k, v in probe_sets.items()}
leak = sorted(set(re.findall(r"_(?:cond|filt)_[a-z0-9]{6,}", json.dumps(out, default=repr))))
print(json.dumps({"out": out, "orders": orders, "leak": leak}, default=repr, sort_keys=True))
