"""C18 - CIDR expansion matches exactly the addresses of the network.

Bounded-exhaustive enumeration of networks (all prefix lengths x boundary-octet/-group bases), the real
expansion is compared with integer-range arithmetic (IPv4: exact set equality + disjointness) and with a
family of canonical host spellings (IPv6: completeness)."""
import functools
import ipaddress
import itertools
import re

from mc.runner import add_violation, h64, new_result

PROPERTY = "C18"
LEVEL = "exploration"
RULE = (
    "every expand() is followed on the same object by expand('%') and expand(): the patterns differ in the wildcard token only. "
    "IPv4: every prefix length 0..32 x every network base with octets from the boundary set (masked, de-duplicated); "
    "each produced glob pattern is turned into the exact set of dotted quads it matches (interval lists via an NFA over "
    "octet strings) and union/disjointness/non-emptiness are decided on the intervals. IPv6: every prefix length 0..128 x "
    "bases with groups from the group set x a host family per network (see bounds); canonical compressed host text must "
    "match a produced pattern. Both through SigmaCIDRExpression.expand() and through a conversion with a backend without "
    "native CIDR; native template fields compared with independently computed values; invalid strings must raise SigmaError. "
    "non-trivial = network whose expansion has a wildcard pattern or more than one pattern; distinct by (version, network)."
)
ASSUMPTIONS = [
    "ipaddress (stdlib) is trusted for canonical IPv6 text and integer conversion",
    "a target 'startswith/glob' match on the textual address is the semantics of the produced patterns",
]
V4_OCTETS = {"quick": [0, 1, 9, 10, 127, 128, 254, 255], "thorough": [0, 1, 9, 10, 99, 100, 127, 128, 199, 200, 254, 255]}
V6_GROUPS = {"quick": [0, 1, 0xABCD], "thorough": [0, 1, 0xABCD, 0xFFFF]}


def bounds(tier):
    return {
        "v4_prefixlens": "0..32",
        "v4_octet_set": V4_OCTETS[tier],
        "v6_prefixlens": "0..128",
        "v6_group_set": [hex(g) for g in V6_GROUPS[tier]],
        "v6_host_family": "free groups: first two and last two each in {0,1,ffff}, middle jointly 0/ffff; partial group bits all-0/all-1/low-bit",
        "beyond": "addresses outside the boundary sets are not covered (no sampling)",
    }


# ---------------------------------------------------------------------------------------------
# reference: glob pattern -> exact set of IPv4 addresses (sorted disjoint integer ranges)


def _nfa_step(pattern, states, ch):
    """states: set of positions in pattern (after epsilon closure). '*' any run, '?' one char."""
    nxt = set()
    for p in states:
        if p >= len(pattern):
            continue
        c = pattern[p]
        if c == "*":
            nxt.add(p)  # stay
        elif c == "?" or c == ch:
            nxt.add(p + 1)
    return _closure(pattern, nxt)


def _closure(pattern, states):
    out = set(states)
    work = list(states)
    while work:
        p = work.pop()
        if p < len(pattern) and pattern[p] == "*" and p + 1 not in out:
            out.add(p + 1)
            work.append(p + 1)
    return frozenset(out)


_FAST = re.compile(r"^((?:\d+\.){0,3})\*$|^(\d+\.\d+\.\d+\.\d+)$")


def _canon_octet(s):
    return s == str(int(s)) and int(s) < 256


def v4_ranges(pattern):
    """fast path for 'a.b.*' / exact addresses (cross-checked against the NFA by selftest()), NFA otherwise"""
    m = _FAST.match(pattern)
    if not m:
        return v4_ranges_nfa(pattern)
    octs = (m.group(1) or m.group(2) or "").strip(".")
    octs = octs.split(".") if octs else []
    if not all(_canon_octet(o) for o in octs):
        return ()
    base = 0
    for o in octs:
        base = (base << 8) | int(o)
    free = 8 * (4 - len(octs))
    return ((base << free, (base << free) | ((1 << free) - 1)),)


def selftest():
    for p in ["*", "1.*", "10.0.*", "255.255.255.*", "1.2.3.4", "01.*", "256.*", "1.2.3.256", "0.0.0.0", "127.*", "9.99.*"]:
        assert v4_ranges(p) == v4_ranges_nfa(p), p
    # NFA against brute force over a small slice of the address space
    for p in ["1*", "1.1*", "1?.*", "1.2.3.4*", "10.1*.*", "1.2.3.?", "2?.2*.*"]:
        brute = [n for n in range(0, 1 << 32, 65537 * 3) if glob_match(p, quad(n))]
        rs = v4_ranges_nfa(p)
        assert all(any(a <= n <= b for a, b in rs) for n in brute), p
        for n in range(0, 1 << 32, 65537 * 3):
            assert any(a <= n <= b for a, b in rs) == glob_match(p, quad(n)), (p, n)


@functools.lru_cache(maxsize=200000)
def v4_ranges_nfa(pattern):
    """Exact set of IPv4 addresses (as [lo, hi] integer ranges) whose dotted-quad text matches the glob."""

    @functools.lru_cache(maxsize=None)
    def rec(idx, states):
        # returns list of (lo, hi) offsets within the 2^(8*(4-idx)) block
        if not states:
            return ()
        if idx == 4:
            return ((0, 0),) if len(pattern) in states else ()
        size = 1 << (8 * (3 - idx))
        out = []
        for v in range(256):
            st = states
            for ch in str(v) + ("." if idx < 3 else ""):
                st = _nfa_step(pattern, st, ch)
                if not st:
                    break
            if not st:
                continue
            for lo, hi in rec(idx + 1, st):
                a, b = v * size + lo, v * size + hi
                if out and out[-1][1] + 1 == a:
                    out[-1] = (out[-1][0], b)
                else:
                    out.append((a, b))
                    if len(out) > 70000:
                        raise OverflowError(f"pattern {pattern!r} matches too fragmented a set to decide by intervals")
        return tuple(out)

    return rec(0, _closure(pattern, {0}))


def glob_match(pattern, text):
    rx = "".join(".*" if c == "*" else "." if c == "?" else re.escape(c) for c in pattern)
    return re.fullmatch(rx, text, re.S) is not None


# ---------------------------------------------------------------------------------------------
# enumeration


def v4_networks(tier, plens=range(33)):
    octs = V4_OCTETS[tier]
    for plen in plens:
        mask = ((1 << plen) - 1) << (32 - plen)
        seen = set()
        for q in itertools.product(octs, repeat=4):
            n = ((q[0] << 24) | (q[1] << 16) | (q[2] << 8) | q[3]) & mask
            if n not in seen:
                seen.add(n)
                yield plen, n


def v6_networks(tier, plens=range(129)):
    gs = V6_GROUPS[tier]
    for plen in plens:
        mask = ((1 << plen) - 1) << (128 - plen)
        seen = set()
        for q in itertools.product(gs, repeat=8):
            n = 0
            for g in q:
                n = (n << 16) | g
            n &= mask
            if n not in seen:
                seen.add(n)
                yield plen, n


def v6_hosts(plen, net):
    """Host family for a network: list of integer addresses inside it."""
    free_bits = 128 - plen
    nfree_groups = free_bits // 16
    partial_bits = free_bits % 16
    partial_opts = [0]
    if partial_bits:
        partial_opts = sorted({0, (1 << partial_bits) - 1, 1})
    vals = (0, 1, 0xFFFF)
    if nfree_groups <= 4:
        group_opts = list(itertools.product(vals, repeat=nfree_groups))
    else:
        group_opts = []
        mid = nfree_groups - 4
        for a in itertools.product(vals, repeat=2):
            for m in (0, 0xFFFF):
                for b in itertools.product(vals, repeat=2):
                    group_opts.append(a + (m,) * mid + b)
    for p in partial_opts:
        for gsel in group_opts:
            h = p
            for g in gsel:
                h = (h << 16) | g
            yield net | h


def quad(n):
    return f"{(n >> 24) & 255}.{(n >> 16) & 255}.{(n >> 8) & 255}.{n & 255}"


# ---------------------------------------------------------------------------------------------
# the implementation under test

_BACKENDS = {}


def backends():
    if not _BACKENDS:
        from sigma.conversion.base import TextQueryBackend
        from sigma.conditions import ConditionAND, ConditionNOT, ConditionOR

        common = dict(
            precedence=(ConditionNOT, ConditionAND, ConditionOR),
            group_expression="({expr})",
            or_token="OR",
            and_token="AND",
            not_token="NOT",
            eq_token="=",
            str_quote='"',
            escape_char="\\",
            wildcard_multi="*",
            wildcard_single="?",
            add_escaped="\\",
        )
        _BACKENDS["expand"] = type("C18ExpandBackend", (TextQueryBackend,), dict(common))
        _BACKENDS["native"] = type(
            "C18NativeBackend",
            (TextQueryBackend,),
            dict(common, cidr_expression="CIDR<{field}|{value}|{network}|{prefixlen}|{netmask}>"),
        )
    return _BACKENDS


def impl_expand(cidr):
    from sigma.types import SigmaCIDRExpression

    e = SigmaCIDRExpression(cidr)
    pats = e.expand()
    # the same object expanded with another wildcard token, then with the default again
    other, again = e.expand("%"), e.expand()
    if other != [p.replace("*", "%") for p in pats] or again != pats:
        raise ExpandDiffers(repr((pats, other, again))[:300])
    return pats


class ExpandDiffers(Exception):
    """expand() of one object depends on what it was asked before"""


def impl_convert(cidr, which):
    from sigma.rule import SigmaRule

    rule = SigmaRule.from_dict(
        {
            "title": "t",
            "logsource": {"category": "c"},
            "detection": {"sel": {"fld|cidr": cidr}, "condition": "sel"},
        }
    )
    return backends()[which]().convert_rule(rule)


_PAT_RE = re.compile(r'fld="((?:[^"\\]|\\.)*)"')


def patterns_from_query(q):
    """decode fld="pat" OR fld="pat" ... (patterns consist of hex digits, '.', ':' and '*')"""
    pats = _PAT_RE.findall(q)
    rebuilt = " OR ".join(f'fld="{p}"' for p in pats)
    if q == "(" + rebuilt + ")":  # grouping of the OR is a spelling choice, not a difference
        q = rebuilt
    if rebuilt != q:
        return None
    return [p.replace("\\\\", "\\") for p in pats]


# ---------------------------------------------------------------------------------------------
# oracles


def check_v4(res, plen, net):
    cidr = f"{quad(net)}/{plen}"
    case = {"kind": "v4", "cidr": cidr}
    try:
        pats = impl_expand(cidr)
        q = impl_convert(cidr, "expand")
    except Exception as e:
        add_violation(res, "v4:exception:" + type(e).__name__, case, "patterns", repr(e))
        return
    res["evaluations"] += 1
    qp = patterns_from_query(q[0]) if len(q) == 1 else None
    if qp != pats:
        add_violation(res, "v4:backend-query-differs-from-expand", case, pats, q)
    lo, hi = net, net | ((1 << (32 - plen)) - 1)
    ranges = []
    for p in pats:
        r = v4_ranges(p)
        if not r:
            add_violation(res, "v4:empty-pattern", case, "every pattern matches an address", p)
        ranges.extend((a, b, p) for a, b in r)
    ranges.sort()
    # disjoint
    for (a1, b1, p1), (a2, b2, p2) in zip(ranges, ranges[1:]):
        if a2 <= b1:
            add_violation(res, "v4:redundant-overlap", case, "pairwise disjoint", [p1, p2])
            break
    # union
    merged = []
    for a, b, _ in ranges:
        if merged and a <= merged[-1][1] + 1:
            merged[-1][1] = max(merged[-1][1], b)
        else:
            merged.append([a, b])
    if merged != [[lo, hi]]:
        outside = any(a < lo or b > hi for a, b in merged)
        sig = "v4:matches-outside-network" if outside else "v4:misses-addresses"
        add_violation(
            res, sig, case, [quad(lo), quad(hi)], {"patterns": pats[:6], "matched": [[quad(a), quad(b)] for a, b in merged[:4]]}
        )
    if len(pats) > 1 or any("*" in p for p in pats):
        res["nontrivial"].add(h64(cidr))
    res["outcomes"].add(h64([len(pats), pats[0].count(".")]))
    # native template
    try:
        nq = impl_convert(cidr, "native")
    except Exception as e:
        add_violation(res, "v4:native-exception:" + type(e).__name__, case, "query", repr(e))
        return
    res["evaluations"] += 1
    mask = ((1 << plen) - 1) << (32 - plen)
    exp = f"CIDR<fld|{quad(net)}/{plen}|{quad(net)}|{plen}|{quad(mask)}>"
    if nq != [exp]:
        add_violation(res, "v4:native-template-fields", case, exp, nq)
    if len(res["samples"]) < 2 and plen in (9, 23):
        res["samples"].append({"cidr": cidr, "patterns": pats[:4], "n_patterns": len(pats)})


def v6_sig(plen, net, pats, host_text):
    """mechanism of a v6 completeness failure"""
    first = str(ipaddress.IPv6Address(net))
    if plen < 128 and any("*" not in p for p in pats):
        return "v6:single-address-pattern-for-network"
    # which zero run does the canonical host text compress, compared with the network address text
    hpos = host_text.find("::")
    fpos = first.find("::")
    if hpos != fpos:
        return "v6:host-compresses-different-zero-run"
    return "v6:host-not-matched"


def check_v6(res, plen, net):
    first = str(ipaddress.IPv6Address(net))
    cidr = f"{first}/{plen}"
    case = {"kind": "v6", "cidr": cidr}
    try:
        pats = impl_expand(cidr)
        q = impl_convert(cidr, "expand")
    except Exception as e:
        add_violation(res, "v6:exception:" + type(e).__name__, case, "patterns", repr(e))
        return
    res["evaluations"] += 1
    qp = patterns_from_query(q[0]) if len(q) == 1 else None
    if qp != pats:
        add_violation(res, "v6:backend-query-differs-from-expand", case, pats, q)
    pre = [p[:-1] for p in pats if p.endswith("*") and "*" not in p[:-1] and "?" not in p]
    other = [p for p in pats if not (p.endswith("*") and "*" not in p[:-1] and "?" not in p)]
    reported = set()
    for h in v6_hosts(plen, net):
        t = str(ipaddress.IPv6Address(h))
        if any(t.startswith(x) for x in pre) or any(glob_match(p, t) for p in other):
            continue
        sig = v6_sig(plen, net, pats, t)
        if sig not in reported:
            reported.add(sig)
            add_violation(res, sig, dict(case, host=t), "host matched by a pattern", pats[:8])
    if len(pats) > 1 or any("*" in p for p in pats):
        res["nontrivial"].add(h64(cidr))
    res["outcomes"].add(h64([len(pats), pats[0].count(":")]))
    try:
        nq = impl_convert(cidr, "native")
    except Exception as e:
        add_violation(res, "v6:native-exception:" + type(e).__name__, case, "query", repr(e))
        return
    res["evaluations"] += 1
    mask = ((1 << plen) - 1) << (128 - plen)
    exp = f"CIDR<fld|{first}/{plen}|{first}|{plen}|{ipaddress.IPv6Address(mask)}>"
    if nq != [exp]:
        add_violation(res, "v6:native-template-fields", case, exp, nq)
    if len(res["samples"]) < 3 and plen in (10, 61):
        res["samples"].append({"cidr": cidr, "patterns": pats[:4], "n_patterns": len(pats)})


INVALID = [
    "10.0.0.1/8", "10.0.0.0/33", "10.0.0.0/-1", "garbage", "", "1.2.3/24", "1.2.3.4.5/8", "256.0.0.0/8",
    "::g/64", "fe80::1/64", "::/129", "10.0.0.0/8/8", " 10.0.0.0/8", "10.0.0.0/ 8", "10.0.0.0/",
    "١٠.0.0.0/8", "10.0.0.0/٨", "1:2:3:4:5:6:7:8:9/64", "10.0.0.*/8", "0x0a.0.0.0/8",
]


def check_invalid(res, s):
    from sigma.exceptions import SigmaError
    from sigma.rule import SigmaDetectionItem

    case = {"kind": "invalid", "cidr": s}
    res["evaluations"] += 1
    try:
        item = SigmaDetectionItem.from_mapping("fld|cidr", s)
    except SigmaError:
        res["outcomes"].add(h64("rejected"))
        return
    except Exception as e:
        add_violation(res, "invalid:non-sigma-exception:" + type(e).__name__, case, "SigmaError", repr(e))
        return
    add_violation(res, "invalid:accepted", case, "SigmaError", repr(item.value))


def spellings():
    """valid values that are not written in normalised form -> the normalised network"""
    out = []
    for a in ("10.1.2.3", "0.0.0.0", "255.255.255.255"):
        out.append(a)  # no prefix length: a /32
    for plen in range(0, 33):
        net = ipaddress.ip_network((int(ipaddress.IPv4Address("10.171.205.239")) >> (32 - plen) << (32 - plen) if plen else 0, plen))
        out.append(f"{net.network_address}/{net.netmask}")
        out.append(f"{net.network_address}/{net.hostmask}")
    for txt in ("1234:5678:0000:AB00:0:0:0:0/56", "FE80::/10", "fe80:0000:0000:0000:0000:0000:0000:0000/64", "fe80::1", "0:0:0:0:0:0:0:0/0", "::ffff:10.0.0.0/104",
                "2001:DB8:0:0:1::/80", "2001:db8::0:1:0:0/96", "2001:0DB8:0000:0000:0000:0000:0000:0000/32", "ABCD:EF01::/32", "::FFFF:0:0/96", "0000::/8"):
        out.append(txt)
    return out


def check_spelling(res, txt):
    from sigma.exceptions import SigmaError

    case = {"kind": "spelling", "cidr": txt}
    res["evaluations"] += 1
    try:
        net = ipaddress.ip_network(txt)
    except ValueError:
        return
    norm = str(net)
    bits = 32 if net.version == 4 else 128
    try:
        nq = impl_convert(txt, "native")
        same = impl_convert(norm, "native")
        pats, npats = impl_expand(txt), impl_expand(norm)
    except SigmaError as e:
        res["outcomes"].add(h64("rejected"))
        # rejecting a spelling that is not address/prefix-length notation (netmask, host mask, bare address) is permitted; an IPv6
        # network in address/prefix-length notation with upper-case digits, leading zeros or uncompressed groups is a valid value
        if net.version == 6 and re.fullmatch(r"[0-9A-Fa-f:.]+/\d+", txt):
            add_violation(res, "spelling:valid-address/prefix-notation-rejected", case, "query", repr(e)[:200])
        return
    except Exception as e:
        add_violation(res, "spelling:non-sigma-exception:" + type(e).__name__, case, "query or SigmaError", repr(e))
        return
    res["nontrivial"].add(h64(txt))
    res["outcomes"].add(h64(["spelling", norm == txt]))
    exp = f"CIDR<fld|{norm}|{net.network_address}|{net.prefixlen}|{net.netmask}>"
    if nq != [exp] or same != [exp]:
        add_violation(res, "spelling:native-template-fields-not-normalised", case, exp, {"given": nq, "normalised": same})
    if sorted(pats) != sorted(npats):
        add_violation(res, "spelling:expansion-differs-from-normalised-network", case, npats[:6], pats[:6])


# ---------------------------------------------------------------------------------------------


def plan(tier, seed):
    shards = [("v4", p) for p in range(33)] + [("v6", p) for p in range(129)] + [("invalid", 0), ("spelling", 0), ("mixed", 0)]
    return shards


def run_shard(shard, tier, seed):
    res = new_result()
    kind, plen = shard
    if kind == "invalid":
        selftest()
    if kind == "v4":
        for p, n in v4_networks(tier, [plen]):
            check_v4(res, p, n)
    elif kind == "v6":
        for p, n in v6_networks(tier, [plen]):
            check_v6(res, p, n)
    elif kind == "mixed":
        # both address families in one process, alternating: networks whose address and prefix length coincide as integers
        for p in range(33):
            check_v4(res, p, 0)  # 0.0.0.0/p
            check_v6(res, p, 0)  # ::/p
            check_v4(res, p, 0)
        for p in range(32, -1, -1):
            check_v6(res, p, 0)
            check_v4(res, p, 0)
    elif kind == "spelling":
        for s in spellings():
            check_spelling(res, s)
    else:
        for s in INVALID:
            check_invalid(res, s)
    return res


def replay(case):
    res = new_result()
    if case["kind"] == "invalid":
        check_invalid(res, case["cidr"])
    elif case["kind"] == "spelling":
        check_spelling(res, case["cidr"])
    else:
        net = ipaddress.ip_network(case["cidr"])
        if case["kind"] == "v4":
            check_v4(res, net.prefixlen, int(net.network_address))
        else:
            check_v6(res, net.prefixlen, int(net.network_address))
    return res["violations"]
