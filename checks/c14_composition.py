"""C14 - pipelines compose in a defined order: priority, then stage, then position."""
import copy
import itertools
import os
import shutil
import tempfile

import yaml

from mc import explore as E
from mc import vbackend as V
from mc.runner import add_violation, h64, new_result

PROPERTY = "C14"
LEVEL = "model_checking"
RULE = (
    "n marker pipelines (order-sensitive field suffix items, bracketing post-processing items, wrapping finalizers, vars; "
    "priorities with forced ties) are composed in every way: every bracketing of p1+...+pn with the empty pipeline / None "
    "inserted at every position and sum(); ProcessingPipelineResolver.resolve with every permutation of the specifier list "
    "(names and files), resolved once and twice; backend pipeline + user pipeline + output-format pipeline; histories that "
    "use an operand (apply / convert) before composing it. Each composition is observed through a probe conversion and "
    "compared with the list-concatenation reference model. state = (composition expression, operands used before); "
    "non-trivial = composition of >= 2 non-empty pipelines."
)
RULE += (" " + 'Backend stages: every sequence <= 3 of three output formats on one backend object, convert_rule(rule, format) as first call on a fresh backend, empty collections and collections whose rules all fail (finalizers run once on the empty list). Resolver: also sets of pipelines without any transformation item.')
ASSUMPTIONS = ["reference = list concatenation of items / post-processing items / finalizers, vars later-wins, resolver order (priority, specifier)"]
PRIOS = [10, 10, 20, 5, 10]
BOUNDS = {"quick": dict(n=4, pre_ops=1), "thorough": dict(n=5, pre_ops=2)}
K = V.K()


def bounds(tier):
    return dict(BOUNDS[tier], priorities=PRIOS)


def pdict(i, with_post=True, with_fin=True, nitems=1, tmpl=False):
    d = {"name": f"p{i}", "priority": PRIOS[i - 1], "vars": {"v": f"val{i}", f"w{i}": i},
         "transformations": [{"id": f"sfx{i}_{j}", "type": "field_name_suffix", "suffix": f"_{i}{'abc'[j]}"} for j in range(nitems)]}
    if i == 1:
        d["transformations"].append({"id": "ph1", "type": "value_placeholders"})
        d["transformations"].insert(0, {"id": "st1", "type": "set_state", "key": "k", "val": "state1"})
    if tmpl:  # post-processing that reads vars and state of the pipeline that owns it; no transformations at all
        d["transformations"] = []
        d["postprocessing"] = [{"id": f"post{i}", "type": "simple_template", "template": f"T{i} " + "{query} v={pipeline.vars[v]} k={pipeline.state[k]}" + f" T{i}"}]
        with_post = False
    if with_post:
        d["postprocessing"] = [{"id": f"post{i}", "type": "embed", "prefix": f"[{i} ", "suffix": f" {i}]"}]
    if with_fin:
        d["finalizers"] = [{"type": "concat", "separator": "" if i != 0 else ";", "prefix": f"<{i} ", "suffix": f" {i}>"}]
    return d


VARIANTS = {1: dict(nitems=2), 2: dict(with_post=False), 3: dict(with_fin=False), 4: dict(tmpl=True, with_fin=False), 5: dict(nitems=2)}


def mk(i):
    from sigma.processing.pipeline import ProcessingPipeline

    if i == 0:
        return ProcessingPipeline()
    return ProcessingPipeline.from_dict(copy.deepcopy(pdict(i, **VARIANTS[i])))


RULE_D = {"title": "probe", "logsource": {"category": "c"}, "detection": {"sel": {"f": "x", "g|expand": "%v%"}, "condition": "sel"}}


def observe_pipeline(p):
    """convert the probe through pipeline p (as user pipeline of a backend without own pipelines)"""
    from sigma.collection import SigmaCollection
    from sigma.rule import SigmaRule

    cls = V.make_backend_class(K, fresh=True)
    b = cls(p)
    try:
        out = b.convert(SigmaCollection([SigmaRule.from_dict(copy.deepcopy(RULE_D))]))
    except Exception as e:
        return ("err", type(e).__name__, str(e)[:200])
    lp = b.last_processing_pipeline
    return ("ok", out, sorted((k, v) for k, v in lp.vars.items() if not k.startswith("backend") and k != "output_format"), list(lp.applied), sorted(lp.applied_ids))


def observe_direct(p):
    """apply / postprocess_query / finalize called on the pipeline object itself"""
    from sigma.rule import SigmaRule

    rule = SigmaRule.from_dict(copy.deepcopy(RULE_D))
    try:
        p.apply(rule)
        q = p.postprocess_query(rule, "Q")
        out = p.finalize([q])
    except Exception as e:
        return ("err", type(e).__name__, str(e)[:150])
    return ("ok", out, sorted(p.state.items()))


def ref_direct(order):
    order = [i for i in order if i != 0]
    post, fins, vars_, state = [], [], {}, {}
    for i in order:
        d = pdict(i, **VARIANTS[i])
        for t in d["transformations"]:
            if t["type"] == "set_state":
                state[t["key"]] = t["val"]
        post += d.get("postprocessing", [])
        fins += d.get("finalizers", [])
        vars_.update(d["vars"])
    q = "Q"
    for p in post:
        if p["type"] == "simple_template":
            n = p["id"][4:]
            if "k" not in state:
                return ("err", "KeyError", "'k'")
            q = f"T{n} {q} v={vars_['v']} k={state['k']} T{n}"
        else:
            q = p["prefix"] + q + p["suffix"]
    out = [q]
    for f in fins:
        out = f["prefix"] + f["separator"].join(out) + f["suffix"]
    return ("ok", out, sorted(state.items()))


def ref_observe(order):
    """reference: list concatenation in the given order of pipeline indices (0 = empty)"""
    order = [i for i in order if i != 0]
    sfx, post, fins, vars_, applied, ids, state = "", [], [], {}, [], [], {}
    for i in order:
        d = pdict(i, **VARIANTS[i])
        for t in d["transformations"]:
            if t["type"] == "field_name_suffix":
                sfx += t["suffix"]
            if t["type"] == "set_state":
                state[t["key"]] = t["val"]
            applied.append(True)
            ids.append(t["id"])
        post += d.get("postprocessing", [])
        ids += [p["id"] for p in d.get("postprocessing", [])]
        fins += d.get("finalizers", [])
        vars_.update(d["vars"])
    if 1 in order:
        val = vars_["v"]
        q = f'`f{sfx}`="x" AND `g{sfx_after_ph(order)}`="{val}"'
    else:
        return None  # placeholder unresolved -> error; not used (p1 is always part of the compositions below)
    for p in post:
        if p["type"] == "simple_template":
            n = p["id"][4:]
            q = f"T{n} {q} v={vars_['v']} k={state['k']} T{n}"
        else:
            q = p["prefix"] + q + p["suffix"]
    out = [q]
    for f in fins:
        out = f["prefix"] + f["separator"].join(out) + f["suffix"]
    return ("ok", out, sorted(vars_.items()), applied, sorted(ids))


def sfx_after_ph(order):
    s = ""
    for i in [i for i in order if i != 0]:
        for t in pdict(i, **VARIANTS[i])["transformations"]:
            if t["type"] == "field_name_suffix":
                s += t["suffix"]
    return s


def bracketings(seq):
    """all full parenthesisations of the sequence; yields nested tuples"""
    if len(seq) == 1:
        yield seq[0]
        return
    for k in range(1, len(seq)):
        for l in bracketings(seq[:k]):
            for r in bracketings(seq[k:]):
                yield (l, r)


def evaluate(expr, objs):
    if isinstance(expr, tuple):
        return evaluate(expr[0], objs) + evaluate(expr[1], objs)
    return objs[expr]


def show(expr):
    if isinstance(expr, tuple):
        return "(" + show(expr[0]) + "+" + show(expr[1]) + ")"
    return {"E": "EMPTY", "N": "None"}.get(expr, f"p{expr}") if not isinstance(expr, int) else f"p{expr}"


def flat(expr):
    if isinstance(expr, tuple):
        return flat(expr[0]) + flat(expr[1])
    return [expr]


def pre_use(objs, ops):
    """history prefix: use operands before composing"""
    from sigma.rule import SigmaRule

    for op, i in ops:
        if op == "apply":
            try:
                objs[i].apply(SigmaRule.from_dict(copy.deepcopy(RULE_D)))
            except Exception:
                pass
        elif op == "convert":
            observe_pipeline(objs[i])
        elif op == "steal":
            pass  # executed after the observed composition was built (see judge_plus)
        elif op == "selfadd":
            objs[i] + objs[i % len([k for k in objs if isinstance(k, int)]) + 1]


def judge_plus(res, st, n, expr, ops):
    objs = {i: mk(i) for i in range(1, n + 1)}
    objs["E"] = mk(0)
    case = {"kind": "plus", "expr": show(expr), "pre": [list(o) for o in ops]}
    res["evaluations"] += 1
    st.history()
    st.transition(len(flat(expr)) - 1 + len(ops))
    st.state([show(expr), ops])
    pre_use(objs, ops)
    order = [x for x in flat(expr) if isinstance(x, int)]
    try:
        if "N" in flat(expr):
            # p + None is only defined with None on the right of a pipeline
            comb = evaluate(_strip_none(expr), objs) + None
        else:
            comb = evaluate(expr, objs)
        for op, j in ops:
            if op == "steal" and j in objs:  # a later composition contains the same operand object
                thief = mk(5 if n < 5 else 2) + objs[j]
                thief.apply(__import__("sigma.rule", fromlist=["SigmaRule"]).SigmaRule.from_dict(copy.deepcopy(RULE_D)))
        direct = observe_direct(comb)  # the composed pipeline used directly (no re-composition by a backend)
        got = observe_pipeline(comb)
    except Exception as e:
        got = ("err", type(e).__name__, str(e)[:200])
        direct = None
    exp = ref_observe(order)
    if direct is not None and exp is not None:
        exp_direct = ref_direct(order)
        if direct != exp_direct:
            add_violation(res, "plus:direct-use-differs" + (":after-" + "+".join(o for o, _ in ops) if ops else ""), case, exp_direct, direct)
    if len([x for x in order]) >= 2:
        res["nontrivial"].add(h64(case))
    res["outcomes"].add(h64(str(got[1])[:80]))
    if got != exp:
        which = next((nm for nm, a, b in zip(("status", "output", "vars", "applied", "applied_ids"), got, exp) if a != b), "shape")
        add_violation(res, f"plus:{which}-differs" + (":after-" + "+".join(o for o, _ in ops) if ops else ""), case, exp, got)


def _strip_none(expr):
    if isinstance(expr, tuple):
        l, r = expr
        if l == "N":
            return _strip_none(r)
        if r == "N":
            return _strip_none(l)
        return (_strip_none(l), _strip_none(r))
    return expr


def judge_sum(res, st, n, perm):
    objs = [mk(i) for i in perm]
    case = {"kind": "sum", "perm": list(perm)}
    res["evaluations"] += 1
    st.history()
    st.transition(len(perm))
    st.state(["sum", perm])
    try:
        got = observe_pipeline(sum(objs))
    except Exception as e:
        got = ("err", type(e).__name__, str(e)[:200])
    exp = ref_observe(list(perm))
    res["outcomes"].add(h64(str(got[1])[:80]))
    if got != exp:
        add_violation(res, "sum:differs", case, exp, got)


def judge_resolver(res, st, n, perm, mode, twice, tmpdir):
    from sigma.processing.resolver import ProcessingPipelineResolver

    case = {"kind": "resolver", "perm": list(perm), "mode": mode, "twice": twice}
    res["evaluations"] += 1
    st.history()
    st.transition(len(perm) * (2 if twice else 1))
    st.state(["resolver", perm, mode, twice])
    specs = []
    if mode == "names":
        resolver = ProcessingPipelineResolver.from_pipeline_list([mk(i) for i in range(1, n + 1)])
        specs = [f"p{i}" for i in perm]
        key = {i: (PRIOS[i - 1], f"p{i}") for i in perm}
    else:
        resolver = ProcessingPipelineResolver()
        key = {}
        for i in perm:
            path = os.path.join(tmpdir, f"{'zyxwv'[i - 1]}_pipe{i}.yml")
            with open(path, "w") as f:
                yaml.safe_dump(pdict(i, **VARIANTS[i]), f)
            specs.append(path)
            key[i] = (PRIOS[i - 1], path)
    exp_order = sorted(perm, key=lambda i: key[i])
    try:
        comb = resolver.resolve(specs)
        if twice:
            first = observe_pipeline(comb)
            d_first = observe_direct(comb)
            comb2 = resolver.resolve(specs)
            # the earlier result used directly (apply / postprocess_query / finalize on the object) right after the later, equal one was composed
            d_again = observe_direct(comb)
            got = observe_pipeline(comb2)
            again = observe_pipeline(comb) if len(perm) > 1 else first
            if again != first:
                add_violation(res, f"resolver:first-result-changed-by-second-resolution:{mode}", case, first, again)
            if d_again != d_first:
                add_violation(res, f"resolver:first-result-applied-directly-changed-by-second-resolution:{mode}", case, d_first, d_again)
        else:
            got = observe_pipeline(comb)
    except Exception as e:
        got = ("err", type(e).__name__, str(e)[:200])
    exp = ref_observe(exp_order)
    if len(perm) >= 2:
        res["nontrivial"].add(h64(case))
    res["outcomes"].add(h64(str(got[1])[:80]))
    if got != exp:
        add_violation(res, f"resolver:order-differs:{mode}" + (":twice" if twice else ""), case, exp, got)


def judge_resolver_no_items(res, st, perm, mode, tmpdir):
    """pipelines WITHOUT transformation items (only post-processing, finalizers, vars): resolving them keeps all of that"""
    from sigma.collection import SigmaCollection
    from sigma.processing.resolver import ProcessingPipelineResolver
    from sigma.processing.pipeline import ProcessingPipeline
    from sigma.rule import SigmaRule

    defs = {
        6: {"name": "q6", "priority": 30, "vars": {"u": "six"}, "postprocessing": [{"id": "post6", "type": "embed", "prefix": "[6 ", "suffix": " 6]"}]},
        7: {"name": "q7", "priority": 20, "vars": {"u": "seven", "w": 7}, "finalizers": [{"type": "concat", "separator": "|", "prefix": "<7 ", "suffix": " 7>"}]},
        8: {"name": "q8", "priority": 20, "vars": {"x": 8}, "postprocessing": [{"id": "post8", "type": "simple_template", "template": "T8 {query} u={pipeline.vars[u]} T8"}],
            "finalizers": [{"type": "concat", "separator": "+", "prefix": "<8 ", "suffix": " 8>"}]},
        9: {"name": "q9", "priority": 10, "vars": {"u": "nine", "y": 9}},  # nothing but variables
        10: {"name": "Q8", "priority": 20, "vars": {"u": "upper"}, "postprocessing": [{"id": "postU", "type": "embed", "prefix": "[U ", "suffix": " U]"}]},  # 'Q8' < 'q7' < 'q8
    }
    case = {"kind": "resolver-no-items", "perm": list(perm), "mode": mode}
    res["evaluations"] += 1
    st.history()
    st.transition(len(perm))
    st.state(["resolver-no-items", perm, mode])
    if mode == "names":
        resolver = ProcessingPipelineResolver.from_pipeline_list([ProcessingPipeline.from_dict(copy.deepcopy(defs[i])) for i in defs])
        specs = [defs[i]["name"] for i in perm]
        key = {i: (defs[i]["priority"], defs[i]["name"]) for i in perm}
    else:
        resolver, specs, key = ProcessingPipelineResolver(), [], {}
        for i in perm:
            path = os.path.join(tmpdir, f"{'edcba'[i - 6]}_noitems{i}.yml")
            with open(path, "w") as f:
                yaml.safe_dump(defs[i], f)
            specs.append(path)
            key[i] = (defs[i]["priority"], path)
    order = sorted(perm, key=lambda i: key[i])
    vars_ = {}
    for i in order:
        vars_.update(defs[i]["vars"])
    failed = None
    out = []
    for q in ('`f`="x"', '`f`="y"'):  # the probe rule has two conditions: post-processing applies to every emitted query
        for i in order:
            for pp in defs[i].get("postprocessing", []):
                if pp["type"] == "embed":
                    q = pp["prefix"] + q + pp["suffix"]
                elif "u" in vars_:
                    q = f"T8 {q} u={vars_['u']} T8"
                else:
                    failed = ("err", "KeyError")
        out.append(q)
    for i in order:
        for f in defs[i].get("finalizers", []):
            out = f["prefix"] + f["separator"].join(out) + f["suffix"]
    exp = failed or ("ok", out, sorted(vars_.items()))
    try:
        comb = resolver.resolve(specs)
        b = V.make_backend_class(K, fresh=True)(comb)
        got_out = b.convert(SigmaCollection([SigmaRule.from_dict({"title": "plain", "logsource": {"category": "c"}, "detection": {"sel": {"f": "x"}, "sel2": {"f": "y"}, "condition": ["sel", "sel2"]}})]))
        lp = b.last_processing_pipeline
        got = ("ok", got_out, sorted((k, v) for k, v in lp.vars.items() if not k.startswith("backend") and k != "output_format"))
    except Exception as e:
        got = ("err", type(e).__name__)
    res["nontrivial"].add(h64(case))
    res["outcomes"].add(h64(str(got)[:80]))
    if got != exp:
        add_violation(res, f"resolver:pipelines-without-transformation-items:{mode}", case, exp, got)


def judge_backend(res, st, user):
    """backend pipeline, then user's, then output-format pipeline"""
    from sigma.collection import SigmaCollection
    from sigma.rule import SigmaRule

    cls = V.make_backend_class(K, fresh=True)
    cls.backend_processing_pipeline = mk(1)
    cls.output_format_processing_pipeline = {"default": mk(3)}
    case = {"kind": "backend", "user": user}
    res["evaluations"] += 1
    st.history()
    st.transition(2)
    st.state(["backend", user])
    b = cls(mk(user) if user else None)
    try:
        out = b.convert(SigmaCollection([SigmaRule.from_dict(copy.deepcopy(RULE_D))]))
        lp = b.last_processing_pipeline
        got = ("ok", out, sorted((k, v) for k, v in lp.vars.items() if not k.startswith("backend") and k != "output_format"), list(lp.applied), sorted(lp.applied_ids))
    except Exception as e:
        got = ("err", type(e).__name__, str(e)[:200])
    exp = ref_observe([1] + ([user] if user else []) + [3])
    res["nontrivial"].add(h64(case))
    if got != exp:
        add_violation(res, "backend:stage-order-differs", case, exp, got)


def judge_backend_formats(res, st, user, seq):
    """one backend object converts with a sequence of output formats: every conversion runs backend + user + THAT format's pipeline"""
    from sigma.collection import SigmaCollection
    from sigma.rule import SigmaRule

    cls = V.make_backend_class(K, fresh=True)
    cls.backend_processing_pipeline = mk(1)
    cls.formats = {"default": "d", "alt": "a", "bare": "b"}
    from collections import defaultdict
    from sigma.processing.pipeline import ProcessingPipeline

    cls.output_format_processing_pipeline = defaultdict(ProcessingPipeline, {"default": mk(3), "alt": mk(4)})  # 'bare' has no format pipeline
    for f in ("alt", "bare"):
        setattr(cls, "finalize_query_" + f, lambda self, rule, query, index, state: query)
        setattr(cls, "finalize_output_" + f, lambda self, queries: queries)
    fmt_pipe = {"default": [3], "alt": [4], "bare": []}
    case = {"kind": "backend-formats", "user": user, "formats": list(seq)}
    res["evaluations"] += 1
    st.history()
    st.transition(len(seq))
    b = cls(mk(user) if user else None)
    got = exp = None
    for fmt in seq:
        try:
            out = b.convert(SigmaCollection([SigmaRule.from_dict(copy.deepcopy(RULE_D))]), fmt)
            lp = b.last_processing_pipeline
            got = ("ok", out, sorted((k, v) for k, v in lp.vars.items() if not k.startswith("backend") and k != "output_format"), list(lp.applied), sorted(lp.applied_ids))
        except Exception as e:
            got = ("err", type(e).__name__, str(e)[:200])
        exp = ref_observe([1] + ([user] if user else []) + fmt_pipe[fmt])
        if got != exp:
            add_violation(res, "backend:stage-order-differs:after-other-output-format" if len(seq) > 1 else "backend:stage-order-differs:format", dict(case, at=fmt), exp, got)
            break
    st.state(["backend-formats", user, list(seq)])
    res["outcomes"].add(h64(got))
    res["nontrivial"].add(h64(case))


def _fmt_class():
    from collections import defaultdict
    from sigma.processing.pipeline import ProcessingPipeline

    cls = V.make_backend_class(K, fresh=True)
    cls.backend_processing_pipeline = mk(1)
    cls.formats = {"default": "d", "alt": "a", "bare": "b"}
    cls.output_format_processing_pipeline = defaultdict(ProcessingPipeline, {"default": mk(3), "alt": mk(4)})
    for f in ("alt", "bare"):
        setattr(cls, "finalize_query_" + f, lambda self, rule, query, index, state: query)
        setattr(cls, "finalize_output_" + f, lambda self, queries: queries)
    return cls


def judge_backend_entry(res, st, user, fmt):
    """convert_rule(rule, format) on a backend object that has not converted anything yet composes the pipeline of THAT format"""
    from sigma.rule import SigmaRule

    case = {"kind": "backend-convert_rule-first", "user": user, "format": fmt}
    res["evaluations"] += 1
    st.history()
    st.transition(1)
    outs = []
    for explicit_init in (False, True):
        b = _fmt_class()(mk(user) if user else None)
        try:
            if explicit_init:
                b.init_processing_pipeline(fmt)
            qs = b.convert_rule(SigmaRule.from_dict(copy.deepcopy(RULE_D)), fmt)
            lp = b.last_processing_pipeline
            outs.append(("ok", qs, sorted(lp.applied_ids), lp.vars.get("output_format")))
        except Exception as e:
            outs.append(("err", type(e).__name__, str(e)[:200]))
    st.state(["entry", user, fmt])
    res["outcomes"].add(h64(outs[0]))
    res["nontrivial"].add(h64(case))
    if outs[0] != outs[1]:
        add_violation(res, "backend:convert_rule-on-fresh-backend-uses-other-format-pipeline", case, outs[1], outs[0])


def judge_backend_empty(res, st, user, fmt, how):
    """no query is emitted (empty collection / every rule fails and errors are collected): the finalizers still run once, in order, on the empty list"""
    from sigma.collection import SigmaCollection
    from sigma.rule import SigmaRule

    case = {"kind": "backend-no-queries", "user": user, "format": fmt, "how": how}
    res["evaluations"] += 1
    st.history()
    st.transition(1)
    b = _fmt_class()(mk(user) if user else None, collect_errors=True)
    rules = [] if how == "empty" else [SigmaRule.from_dict({"title": "bad", "logsource": {"category": "c"}, "detection": {"sel": {"f|expand": "%undefined%"}, "condition": "sel"}})]
    try:
        got = b.convert(SigmaCollection(rules), fmt)
    except Exception as e:
        got = ("err", type(e).__name__, str(e)[:200])
    order = [1] + ([user] if user else []) + {"default": [3], "alt": [4], "bare": []}[fmt]
    exp = []
    for i in order:
        for f in pdict(i, **VARIANTS[i]).get("finalizers", []):
            exp = f["prefix"] + f["separator"].join(exp) + f["suffix"]
    st.state(["empty", user, fmt, how])
    res["outcomes"].add(h64(got))
    res["nontrivial"].add(h64(case))
    if got != exp:
        add_violation(res, "backend:finalizers-not-run-on-empty-output", case, exp, got)


def plan(tier, seed):
    return ["plus", "plus-pre", "sum", "resolver", "backend"]


def run_shard(shard, tier, seed):
    res = new_result()
    st = E.Stats(res)
    n = BOUNDS[tier]["n"]
    if shard in ("plus", "plus-pre"):
        seqs = []
        for m in range(1, n + 1):
            base = list(range(1, m + 1))
            seqs.append(base)
            for pos in range(m + 1):
                seqs.append(base[:pos] + ["E"] + base[pos:])
            for pos in range(1, m + 1):
                seqs.append(base[:pos] + ["N"] + base[pos:])
        exprs = [e for s in seqs for e in bracketings(s)]
        if shard == "plus":
            for e in exprs:
                judge_plus(res, st, n, e, ())
            res["samples"].append({"kind": "plus", "expr": show(exprs[-1])})
        else:
            opsmenu = [(op, i) for op in ("apply", "convert", "selfadd", "steal") for i in range(1, n + 1)]
            for k in range(1, BOUNDS[tier]["pre_ops"] + 1):
                for ops in itertools.product(opsmenu, repeat=k):
                    for e in exprs:
                        if set(flat(e)) >= set(range(1, n + 1)) and "N" not in flat(e) and "E" not in flat(e):
                            judge_plus(res, st, n, e, ops)
            res["samples"].append({"kind": "plus-after-use", "ops": [list(o) for o in opsmenu[:3]]})
    elif shard == "sum":
        for m in range(1, n + 1):
            for perm in itertools.permutations(range(1, n + 1), m):
                if 1 in perm:
                    judge_sum(res, st, n, perm)
        res["samples"].append({"kind": "sum", "perm": list(range(1, n + 1))})
    elif shard == "resolver":
        tmpdir = tempfile.mkdtemp(prefix="c14_")
        try:
            for m in range(1, n + 1):
                for perm in itertools.permutations(range(1, n + 1), m):
                    if 1 not in perm:
                        continue
                    for mode in ("names", "files"):
                        for twice in (False, True):
                            judge_resolver(res, st, n, perm, mode, twice, tmpdir)
            for m in (1, 2, 3, 4):
                for perm in itertools.permutations((6, 7, 8, 9, 10), m):
                    for mode in ("names", "files"):
                        judge_resolver_no_items(res, st, perm, mode, tmpdir)
            res["samples"].append({"kind": "resolver", "perm": list(range(n, 0, -1)), "mode": "files"})
        finally:
            shutil.rmtree(tmpdir, ignore_errors=True)
    else:
        for user in (None, 2, 4):
            judge_backend(res, st, user)
        for user in (None, 2, 5):
            for fmt in ("default", "alt", "bare"):
                judge_backend_entry(res, st, user, fmt)
                for how in ("empty", "all-failed"):
                    judge_backend_empty(res, st, user, fmt, how)
        for user in (None, 2):
            for k in (1, 2, 3):
                for seq in itertools.product(("default", "alt", "bare"), repeat=k):
                    judge_backend_formats(res, st, user, seq)
        res["samples"].append({"kind": "backend", "user": 2})
    return res


def replay(case):
    res = new_result()
    st = E.Stats(res)
    tmpdir = tempfile.mkdtemp(prefix="c14_")
    try:
        for tier in ("quick", "thorough"):
            for sh in plan(tier, 0):
                r = run_shard(sh, tier, 0)
                vs = [v for v in r["violations"] if v["case"] == case]
                if vs:
                    return vs
    finally:
        shutil.rmtree(tmpdir, ignore_errors=True)
    return []
