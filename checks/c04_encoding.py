"""C04 - encoding modifiers find the payload in encoded data at every alignment."""
import base64
import itertools

from mc import refsigma as R
from mc.runner import add_violation, h64, new_result

PROPERTY = "C04"
LEVEL = "exploration"
RULE = (
    "every payload up to the length bound over {a, B, e-acute (2 UTF-8 bytes), euro (3), emoji (4, surrogate pair), escaped "
    "literal star} through every chain in CHAINS via SigmaDetectionItem.from_mapping; oracles are Python's base64/codecs. "
    "base64offset: every surrounding with prefix/suffix length 0..5 and the byte adjacent to the payload ranging over "
    "0x00,0x11..0xFF on both sides (fillers fixed) - completeness (some value occurs in b64(prefix+payload+suffix)) and "
    "soundness (each value occurs for every surrounding of one alignment class). non-trivial = payload with a multi-byte "
    "or escaped character or length not divisible by 3; distinct by (chain, payload)."
)
RULE += (" " + 'Payloads with unescaped wildcards (<= 3 symbols) must be rejected by every Base64 chain. A second detection item built from the payload objects of the first item (same chain) must give the same values and leave the payload unchanged.')
ASSUMPTIONS = [
    "bytes denoted by a value = UTF-8 encoding of its literal characters (the representation the wide modifier relies on)",
    "Python base64 and codecs are ground truth",
]
SYMS = ["a", "B", "é", "€", "\U0001F600", "\\*"]
WILD = ["?", "*"]  # unescaped wildcards: a payload containing one denotes no byte string
CODECS = {"wide": ("utf-16-le", b""), "utf16le": ("utf-16-le", b""), "utf16be": ("utf-16-be", b""), "utf16": ("utf-16-le", b"\xff\xfe")}
CHAINS = ["base64", "base64offset", "wide", "utf16be", "utf16"] + [f"{c}|{b}" for c in ("wide", "utf16be", "utf16") for b in ("base64", "base64offset")]
BOUNDS = {"quick": dict(maxlen=4), "thorough": dict(maxlen=6)}
ADJ = [0x11 * k for k in range(16)]


def bounds(tier):
    return dict(BOUNDS[tier], symbols=[s.encode("unicode_escape").decode() for s in SYMS], chains=CHAINS,
                prefix_len="0..5", suffix_len="0..5", adjacent_bytes=[hex(a) for a in ADJ], filler="0x5a")


def payloads(maxlen):
    for n in range(maxlen + 1):
        for t in itertools.product(SYMS, repeat=n):
            yield "".join(t)
    for t in ("\ud800", "a\ud800", "\udfffB", "é\ud800\udc00"):  # lone surrogates cannot be encoded: every chain must reject with a Sigma error
        yield t
    for n in range(1, min(maxlen, 3) + 1):  # payloads with at least one unescaped wildcard
        for t in itertools.product(["a", "é", "\\*"] + WILD, repeat=n):
            if any(x in WILD for x in t):
                yield "".join(t)


def literal_of(payload):
    return "".join(p for p in R.parse_sigma_string(payload) if isinstance(p, str))


def value_literal(v):
    """literal characters of a produced SigmaString (None if it contains wildcards/placeholders)"""
    parts = R.from_sigma(v)
    if any(not isinstance(p, str) for p in parts):
        return None
    return "".join(parts)


def surroundings():
    out = []
    for pl in range(6):
        for sl in range(6):
            pas = ADJ if pl else [None]
            sas = ADJ if sl else [None]
            for pa in pas:
                for sa in sas:
                    pre = bytes([0x5A] * (pl - 1) + [pa]) if pl else b""
                    suf = bytes([sa] + [0x5A] * (sl - 1)) if sl else b""
                    out.append((pre, suf))
    return out


_SUR = None


def apply_chain(chain, payload):
    from sigma.rule import SigmaDetectionItem

    return SigmaDetectionItem.from_mapping("f|" + chain, payload)


def expected_bytes(chain_prefix, lit):
    """bytes the payload denotes after the (optional) UTF-16 stage; None if not encodable"""
    if chain_prefix is None:
        return lit.encode("utf-8")
    codec, bom = CODECS[chain_prefix]
    return bom + lit.encode(codec)


def check(res, chain, payload):
    from sigma.exceptions import SigmaError
    from sigma.types import SigmaExpansion, SigmaString

    global _SUR
    lit = literal_of(payload)
    mods = chain.split("|")
    enc = mods[0] if mods[0] in CODECS else None
    b64 = mods[-1] if mods[-1].startswith("base64") else None
    case = {"chain": chain, "payload": payload}
    res["evaluations"] += 1
    if any(0xD800 <= ord(c) <= 0xDFFF for c in payload):
        try:
            item = apply_chain(chain, payload)
        except SigmaError:
            res["outcomes"].add(h64("reject-surrogate"))
            return
        except Exception as e:
            add_violation(res, f"{chain}:non-sigma-exception:{type(e).__name__}", case, "SigmaError", repr(e)[:200])
            return
        add_violation(res, f"{chain}:unencodable-payload-accepted", case, "SigmaError", repr(item.value)[:200])
        return
    want = expected_bytes(enc, lit)
    multibyte = any(ord(c) > 127 for c in lit)
    escaped = "\\" in payload
    if any(not isinstance(p, str) for p in R.parse_sigma_string(payload)):
        # a wildcard has no bytes: Base64 of such a payload must be rejected (the UTF-16 stage alone is not judged)
        if b64 is None:
            return
        try:
            item = apply_chain(chain, payload)
        except SigmaError:
            res["outcomes"].add(h64("reject-wildcard"))
            return
        except Exception as e:
            add_violation(res, f"{chain}:non-sigma-exception:{type(e).__name__}", case, "SigmaError", repr(e))
            return
        add_violation(res, f"{chain}:payload-with-wildcard-accepted", case, "SigmaError", repr(item.value)[:200])
        return
    mech = ("multibyte" if multibyte else "") + ("+escaped" if escaped else "") or "ascii"
    try:
        item = apply_chain(chain, payload)
    except SigmaError:
        res["outcomes"].add(h64("reject"))
        if enc is None or not multibyte:
            # base64/base64offset of a wildcard-free string and UTF-16 of ASCII must not be rejected
            add_violation(res, f"{chain}:rejects-encodable:{mech}", case, "a value", "SigmaError")
        return
    except Exception as e:
        add_violation(res, f"{chain}:non-sigma-exception:{type(e).__name__}", case, "value or SigmaError", repr(e))
        return
    vals = item.value
    if len(vals) != 1:
        add_violation(res, f"{chain}:value-count", case, 1, len(vals))
        return
    # the payload objects handed to the first item are used for a second item: same chain, same result
    try:
        from sigma.rule import SigmaDetectionItem

        again = SigmaDetectionItem("f", list(item.modifiers), list(item.original_value))
        if repr(again.value) != repr(vals) or repr(again.original_value) != repr(apply_chain(chain, payload).original_value):
            add_violation(res, f"{chain}:second-item-from-the-same-payload-object-differs", case, repr(vals)[:200], repr(again.value)[:200])
            return
    except Exception as e:
        add_violation(res, f"{chain}:second-item-from-the-same-payload-object-fails:{type(e).__name__}", case, repr(vals)[:200], repr(e)[:200])
        return
    fails = judge(vals[0], b64, want)
    res["outcomes"].add(h64([b64, [f[0] for f in fails]]))
    if fails and enc == "utf16":
        # is the failure explained by the BOM being emitted as the character U+FEFF (UTF-8 bytes EF BB BF)?
        if not judge(vals[0], b64, b"\xef\xbb\xbf" + want[2:]):
            add_violation(res, f"{chain}:bom-as-U+FEFF-character", case, fails[0][1], fails[0][2])
            return
    for kind, exp, got in fails:
        add_violation(res, f"{chain}:{kind}:{mech}", case, exp, got)


def judge(v, b64, want):
    """list of (kind, expected, observed) failures of value v against the byte string `want`"""
    from sigma.types import SigmaExpansion, SigmaString

    global _SUR
    if b64 is None:  # pure UTF-16 stage
        got = value_literal(v) if isinstance(v, SigmaString) else None
        gotb = got.encode("utf-8", "surrogatepass") if got is not None else None
        return [] if gotb == want else [("bytes-differ", want.hex(), gotb.hex() if gotb is not None else repr(v))]
    if b64 == "base64":
        got = value_literal(v) if isinstance(v, SigmaString) else None
        exp = base64.b64encode(want).decode()
        return [] if got == exp else [("text-differs", exp, got)]
    if not isinstance(v, SigmaExpansion):
        return [("not-an-expansion", "SigmaExpansion", repr(v))]
    texts = [value_literal(x) for x in v.values]
    if any(t is None for t in texts):
        return [("expansion-value-with-wildcard", "plain values", repr(v.values))]
    if _SUR is None:
        _SUR = surroundings()
    ok_all = [[True, True, True] for _ in texts]  # value k occurs for every surrounding of alignment class i
    complete_fail = None
    for pre, suf in _SUR:
        full = base64.b64encode(pre + want + suf).decode()
        hit = False
        for k, t in enumerate(texts):
            if t in full:
                hit = True
            else:
                ok_all[k][len(pre) % 3] = False
        if not hit and complete_fail is None:
            complete_fail = (pre.hex(), suf.hex(), full)
    out = []
    if complete_fail is not None:
        out.append(("incomplete", "one of the values occurs in b64(prefix+payload+suffix)",
                    {"values": texts, "prefix": complete_fail[0], "suffix": complete_fail[1], "encoded": complete_fail[2]}))
    for k, t in enumerate(texts):
        if not any(ok_all[k]):
            out.append(("value-depends-on-surrounding", "value occurs for every surrounding of one alignment class",
                        {"value": t, "index": k, "values": texts}))
            break
    return out


def plan(tier, seed):
    return [(c, k) for c in CHAINS for k in range(4)]


def run_shard(shard, tier, seed):
    res = new_result()
    chain, k = shard
    for idx, p in enumerate(payloads(BOUNDS[tier]["maxlen"])):
        if idx % 4 != k:
            continue
        check(res, chain, p)
        lit = literal_of(p)
        if any(ord(c) > 127 for c in lit) or "\\" in p or len(lit.encode()) % 3:
            res["nontrivial"].add(h64([chain, p]))
        if len(res["samples"]) < 1 and len(p) >= 3:
            res["samples"].append({"chain": chain, "payload": p})
    return res


def replay(case):
    res = new_result()
    check(res, case["chain"], case["payload"])
    return res["violations"]
