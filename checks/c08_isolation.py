"""C08 - a failing rule never changes other rules' output; every query is accounted for."""
import itertools

from mc import explore as E
from mc import vbackend as V
from mc.runner import add_violation, h64, new_result

PROPERTY = "C08"
LEVEL = "model_checking"
RULE = (
    "explicit-state exploration by history replay: a history is a sequence of rule kinds (menu below) forming a collection; "
    "every sequence up to the length bound x collect_errors {F,T} x pipeline {none, P} x backend configuration is converted "
    "on fresh real objects; state = (queries so far, error records so far, backend class attributes, pipeline tracking state); "
    "invariant in every state: queries == concatenation of the per-rule fresh conversions of the enabled non-failing rules, "
    "error records == one (rule, error) per failing rule in order (or the first error is raised without collection), backend "
    "class attributes unchanged, and a probe rule converted afterwards on the same backend equals its fresh conversion. "
    "non-trivial = history with >= 1 failing rule and >= 1 other rule."
)
RULE += (" " + 'The menu includes multi-condition rules whose later condition fails and a good rule sharing its nested condition text with a failing rule; the stand-alone references are computed with emptied module caches of the library.')
RULE += " Sub-space K: collections of 1-2 (thorough 3) plain rules, a correlation rule over the first / over all of them and an optional trailing rule, strict and collecting: a correlation rule whose referenced rule failed gets exactly one record and no query, the plain rules' queries and records are unaffected, nothing is raised in collecting mode."
ASSUMPTIONS = ["per-rule fresh conversion (new backend class instance, new pipeline from the same dict, freshly loaded rule) is the reference",
               "errors are compared by type and message"]
MENU = ["ok1", "ok2", "ok_lin", "off", "F_pipe", "F_item", "F_ph", "F_type", "F_cond", "F_neg", "ok_cased_sw", "F_cond2", "F_ph2", "ok_opt", "F_load", "F_dup"]
CORE = ["ok1", "ok2", "ok_lin", "off", "F_pipe", "F_ph", "F_neg", "F_cond2", "F_dup"]
BOUNDS = {"quick": dict(n=4), "thorough": dict(n=5)}


def bounds(tier):
    return dict(BOUNDS[tier], menu=MENU, core_menu_for_length_n=CORE, collect_errors=[False, True], pipelines=["none", "P"], backends=["Ka", "Kb(not_eq)"])


def rule_dict(kind, i):
    base = {"title": f"{kind}-{i}", "id": f"00000000-0000-0000-0000-{i:012d}", "logsource": {"category": "c", "product": "windows"}}
    d = {
        "ok1": {"sel": {"f1": f"a{i}"}, "condition": "sel"},
        "ok2": {"sel": {"f1": f"a{i}"}, "sel2": {"f2": f"b{i}"}, "condition": ["sel", "sel2 and not sel"]},
        "off": {"sel": {"f1": f"off{i}"}, "condition": "sel"},
        # same condition text as F_neg (an operator nested in another one), other detection content
        "ok_lin": {"sel": {"f1": f"lin{i}", "f2": "x"}, "flt": {"f3": f"n{i}"}, "condition": "sel and not flt"},
        # several conditions, a later one fails after an earlier one was converted
        # selectors that match no detection: the optional part vanishes from the condition
        "ok_opt": {"sel": {"f1": f"o{i}"}, "condition": ["sel and not 1 of filter_*", "sel or all of nope*"]},
        # loaded with collected errors: the detection section is a placeholder, the rule cannot be converted
        "F_load": {"sel": {"f1|re": "(a"}, "condition": "sel"},
        # verbatim copies of one failing rule (same title, id and content at every position): one record each
        "F_dup": {"sel": {"f1|expand": "%nope%"}, "condition": "sel"},
        "F_cond2": {"sel": {"f1": f"c{i}"}, "condition": ["sel", "sel and missing"]},
        "F_ph2": {"sel": {"f1": f"p{i}"}, "ph": {"f2|expand": "%nope%"}, "condition": ["sel", "sel or ph", "sel"]},
        "F_pipe": {"sel": {"f1": "x"}, "condition": "sel"},
        "F_item": {"sel": {"ffail": "x", "f1": "y"}, "condition": "sel"},
        "F_ph": {"sel": {"f1|expand": "%nope%"}, "condition": "sel"},
        "F_type": {"sel": {"f1|cased": "Abc"}, "condition": "sel"},
        "F_cond": {"sel": {"f1": "x"}, "condition": "sel and missing"},
        "F_neg": {"sel": {"f1": "x"}, "flt": {"f2|expand": "%nope%"}, "condition": "sel and not flt"},
        "ok_cased_sw": {"sel": {"f1|cased|startswith": "Ab"}, "condition": "sel"},
    }[kind]
    base["detection"] = d
    if kind == "F_dup":
        base["title"], base["id"] = "F_dup", "00000000-0000-0000-0000-00000000dddd"
    if kind == "ok_lin":
        base["logsource"] = {"category": "c", "product": "linux"}
    if kind == "F_pipe":
        base["tags"] = ["attack.t1234"]
    return base


PIPE_P = {
    "name": "P", "priority": 10,
    "transformations": [
        {"id": "st", "type": "set_state", "key": "index", "val": "win", "rule_conditions": [{"type": "logsource", "product": "windows"}]},
        {"id": "map", "type": "field_name_mapping", "mapping": {"f1": "g1", "f2": ["g2a", "g2b"]}},
        {"id": "rf", "type": "rule_failure", "message": "rule not supported", "rule_conditions": [{"type": "tag", "tag": "attack.t1234"}]},
        {"id": "df", "type": "detection_item_failure", "message": "item not supported", "field_name_conditions": [{"type": "include_fields", "fields": ["ffail"]}]},
    ],
    "postprocessing": [{"type": "embed", "prefix": "[", "suffix": "]"}],
}
PIPE_MIN = {
    "name": "M", "priority": 10,
    "transformations": [
        {"id": "rf", "type": "rule_failure", "message": "rule not supported", "rule_conditions": [{"type": "tag", "tag": "attack.t1234"}]},
        {"id": "df", "type": "detection_item_failure", "message": "item not supported", "field_name_conditions": [{"type": "include_fields", "fields": ["ffail"]}]},
    ],
}
NOCS = frozenset(V.ALL_TEMPLATES) - {"cs"}
KS = {"Ka": V.K(templates=NOCS, state_expr=True), "Kb": V.K(templates=NOCS, not_eq=True, state_expr=True)}


def mk_backend(kname, pname, collect, fresh_class=True):
    import copy

    from sigma.processing.pipeline import ProcessingPipeline

    cls = V.make_backend_class(KS[kname], fresh=fresh_class)
    pipe = ProcessingPipeline.from_dict(copy.deepcopy(PIPE_P if pname == "P" else PIPE_MIN))
    return cls(pipe, collect_errors=collect), cls


def load(kind, i):
    from sigma.rule import SigmaRule

    r = SigmaRule.from_dict(rule_dict(kind, i), collect_errors=(kind == "F_load"))
    if kind == "off":
        r.disable_output()
    return r


def norm_err(t, msg):
    """unsupported features surface as NotImplementedError (strict) or SigmaFeatureNotSupportedByBackendError (collected)"""
    import re

    if t in ("NotImplementedError", "SigmaFeatureNotSupportedByBackendError"):
        t = "unsupported-feature"
    return t, re.sub(r" \(while [^)]*\)$", "", msg)


def single(kind, i, kname, pname):
    """fresh per-rule conversion: ('ok', queries) | ('err', type, msg)"""
    from sigma.exceptions import SigmaError

    b, _ = mk_backend(kname, pname, False)
    try:
        return ("ok", b.convert_rule(load(kind, i)))
    except (SigmaError, NotImplementedError) as e:
        return ("err",) + norm_err(type(e).__name__, str(e))
    except Exception as e:  # a rule that cannot be converted must fail with a Sigma error; kept as the stand-alone outcome
        return ("err", "non-sigma:" + type(e).__name__, str(e)[:120])


_SINGLE = {}


def single_cached(kind, i, kname, pname):
    key = (kind, i, kname, pname)
    if key not in _SINGLE:
        _fresh_process_state()  # "converting that rule alone": nothing else was parsed or converted before
        _SINGLE[key] = single(kind, i, kname, pname)
    return _SINGLE[key]


def _fresh_process_state():
    """module-level caches of the library are emptied: every stand-alone conversion (the reference) starts like a new process;
    the histories run in whatever state the worker process is in (a leak through these caches shows as a difference)"""
    from sigma.conditions import _parse_condition_string
    from sigma.modifiers import SigmaModifier

    _parse_condition_string.cache_clear()
    SigmaModifier._type_hint_cache.clear()


def run_history(hist, kname, pname, collect):
    """convert the collection described by hist; returns observation dict"""
    from sigma.collection import SigmaCollection
    from sigma.exceptions import SigmaError

    b, cls = mk_backend(kname, pname, collect)
    rules = [load(k, i) for i, k in enumerate(hist)]
    coll = SigmaCollection(rules)
    obs = {}
    try:
        obs["result"] = ("ok", b.convert(coll))
    except (SigmaError, NotImplementedError) as e:
        obs["result"] = ("err",) + norm_err(type(e).__name__, str(e))
    except Exception as e:
        obs["result"] = ("crash", type(e).__name__, str(e)[:200])
    try:
        obs["errors"] = [(next(k for k, x in enumerate(rules) if x is r),) + norm_err(type(e).__name__, str(e)) for r, e in b.errors]
    except Exception as ex:  # the error list does not consist of (rule, error) pairs
        obs["errors"] = [("malformed-error-records", type(ex).__name__, [type(x).__name__ for x in b.errors][:6])]
    obs["class_changed"] = V.class_attrs_intact(cls)
    # probe on the same backend afterwards
    try:
        obs["probe"] = ("ok", b.convert_rule(load("ok2", 99)))
    except Exception as e:
        obs["probe"] = ("err", type(e).__name__, str(e)[:200])
    p = b.last_processing_pipeline if hasattr(b, "last_processing_pipeline") else None
    obs["canon"] = [obs["result"][0], len(obs["errors"]), obs["class_changed"],
                    sorted(p.state.items()) if p else None, sorted(p.applied_ids) if p else None]
    return obs


def expected(hist, kname, pname, collect):
    qs, errs = [], []
    for i, k in enumerate(hist):
        s = single_cached(k, i, kname, pname)
        if s[0] == "ok":
            if k != "off":
                qs.extend(s[1])
        else:
            errs.append((i, s[1], s[2]))
            if not collect:
                return ("err", s[1], s[2]), []
    return ("ok", qs), errs


def stage_of(kind):
    return {"F_pipe": "pipeline-rule-failure", "F_item": "pipeline-item-failure", "F_ph": "unresolved-placeholder", "F_type": "unsupported-value-type",
            "F_cond": "missing-detection", "F_neg": "placeholder-under-not", "F_cond2": "missing-detection-in-later-condition", "F_ph2": "unresolved-placeholder-in-later-condition", "F_load": "loaded-with-errors", "F_dup": "unresolved-placeholder"}.get(kind, kind)


def judge(res, st, hist, kname, pname, collect):
    obs = run_history(hist, kname, pname, collect)
    exp_res, exp_errs = expected(hist, kname, pname, collect)
    res["evaluations"] += 1
    st.history()
    st.transition(len(hist))
    st.state([hist, obs["canon"]])
    res["outcomes"].add(h64([obs["result"][0], len(obs["errors"])]))
    fails = [k for k in hist if k.startswith("F_")]
    case = {"history": list(hist), "backend": kname, "pipeline": pname, "collect_errors": collect}
    if fails and len(hist) > len(fails):
        res["nontrivial"].add(h64(case))
    mech = "+".join(sorted({stage_of(k) for k in fails})) or "none"
    if obs["result"][0] == "crash":
        add_violation(res, f"non-sigma-exception:{obs['result'][1]}:{mech}", case, exp_res, obs["result"])
        return
    if obs["result"] != exp_res:
        if collect and obs["result"][0] == "err":
            add_violation(res, f"raised-instead-of-collecting:{obs['result'][1]}", case, exp_res, obs["result"])
        else:
            add_violation(res, f"queries-differ:{mech}:collect={collect}", case, exp_res, obs["result"])
    elif collect and obs["errors"] != exp_errs:
        add_violation(res, f"error-records-differ:{mech}", case, exp_errs, obs["errors"])
    if obs["class_changed"]:
        add_violation(res, f"class-attributes-not-restored:{mech}", case, [], obs["class_changed"])
    pexp = single_cached("ok2", 99, kname, pname)
    if obs["probe"][0] != pexp[0] or (pexp[0] == "ok" and obs["probe"][1] != pexp[1]):
        add_violation(res, f"probe-after-history-differs:{mech}", case, pexp, obs["probe"])


# ---------------------------------------------------------------------------------------------
# sub-space K: collections that also contain a correlation rule over the first rule (or the first two)

KC = V.K(templates=NOCS, state_expr=True, correlation={"typing": False})
CMENU = ["ok1", "ok2", "off", "F_pipe", "F_ph", "F_cond", "F_cond2"]


def corr_collection(hist, ctype, tail):
    from sigma.collection import SigmaCollection
    from sigma.correlations import SigmaCorrelationRule

    rules = []
    for i, k in enumerate(hist):
        d = rule_dict(k, i)
        d["name"] = f"r{i}"
        from sigma.rule import SigmaRule

        r = SigmaRule.from_dict(d)
        if k == "off":
            r.disable_output()
        rules.append(r)
    refs = [f"r{i}" for i in range(len(hist))] if ctype == "temporal" else ["r0"]
    c = {"type": ctype, "rules": refs, "timespan": "5m", "group-by": ["f1"]}
    if ctype == "event_count":
        c["condition"] = {"gte": 2}
    rules.append(SigmaCorrelationRule.from_dict({"title": "corr", "name": "corr", "correlation": c}))
    if tail:
        rules.append(load("ok1", 50))
    return SigmaCollection(rules), rules, refs


def judge_corr(res, st, hist, ctype, tail, pname, collect):
    """a correlation rule is a rule of the collection too: if it cannot be converted (a rule it refers to failed) it gets one record
    and no query in collecting mode; the plain rules' queries and records are what they are without the correlation rule"""
    import copy

    from sigma.exceptions import SigmaError
    from sigma.processing.pipeline import ProcessingPipeline

    case = {"sub": "K", "history": list(hist), "correlation": ctype, "trailing_rule": tail, "pipeline": pname, "collect_errors": collect}
    res["evaluations"] += 1
    st.history()
    st.transition(len(hist) + 1 + tail)
    cls = V.make_backend_class(KC, fresh=True)
    mkb = lambda c: cls(ProcessingPipeline.from_dict(copy.deepcopy(PIPE_P if pname == "P" else PIPE_MIN)), collect_errors=c)
    # reference: every plain rule converted alone by a fresh backend of the same kind
    alone = []
    for i, k in enumerate(list(hist) + (["ok1"] if tail else [])):
        idx = 50 if (tail and i == len(hist)) else i
        d = rule_dict(k, idx)
        try:
            from sigma.rule import SigmaRule

            r = SigmaRule.from_dict(d)
            alone.append(("ok", mkb(False).convert_rule(r) if k != "off" else []))
        except (SigmaError, NotImplementedError) as e:
            alone.append(("err",) + norm_err(type(e).__name__, str(e)))
    coll, rules, refs = corr_collection(hist, ctype, tail)
    b = mkb(collect)
    try:
        out = ("ok", b.convert(coll))
    except (SigmaError, NotImplementedError) as e:
        out = ("err",) + norm_err(type(e).__name__, str(e))
    except Exception as e:
        add_violation(res, f"K:non-sigma-exception:{type(e).__name__}", case, "queries or SigmaError", repr(e)[:200])
        return
    st.state([hist, ctype, tail, out[0]])
    res["outcomes"].add(h64([out[0], len(b.errors)]))
    res["nontrivial"].add(h64(case))
    ref_failed = [i for i in range(len(refs)) if alone[i][0] == "err"]
    first_err = next((a for a in alone if a[0] == "err"), None)
    if not collect:
        if first_err is not None:
            # the first failing rule of the collection decides (referenced rules precede the correlation rule)
            pos_first = next(i for i, a in enumerate(alone) if a[0] == "err")
            if pos_first < len(hist) and out != first_err:
                add_violation(res, "K:strict:other-error-than-the-first-failing-rule", case, first_err, out)
        elif out[0] != "ok":
            add_violation(res, "K:strict:error-although-every-rule-converts", case, "queries", out)
        return
    if out[0] != "ok":
        add_violation(res, f"K:raised-instead-of-collecting:{out[1]}", case, "queries and records", out)
        return
    recs = []
    for r, e in b.errors:
        recs.append(next(k for k, x in enumerate(rules) if x is r))
    corr_pos = len(hist)
    exp_recs = [i for i, a in enumerate(alone[: len(hist)]) if a[0] == "err"]
    plain_recs = [i for i in recs if i != corr_pos and i < corr_pos] + [i for i in recs if i > corr_pos]
    exp_plain = exp_recs + ([corr_pos + 1] if tail and alone[-1][0] == "err" else [])
    if plain_recs != exp_plain:
        add_violation(res, "K:records-of-plain-rules-differ", case, exp_plain, recs)
    ncorr = recs.count(corr_pos)
    if ref_failed and ncorr != 1:
        add_violation(res, "K:correlation-over-failed-rule:not-exactly-one-record", case, 1, ncorr)
    if not ref_failed and ncorr != 0:
        add_violation(res, "K:correlation-over-converted-rules:record-although-convertible", case, 0, [str(e)[:100] for r, e in b.errors if r is rules[corr_pos]])
    # queries of the plain rules, in order, are a subsequence of the output (the correlation rule's own queries lie between them)
    # (rules a correlation rule refers to emit no query of their own unless the correlation rule asks for it)
    want = [q for i, a in enumerate(alone) if a[0] == "ok" and i >= len(refs) for q in a[1]]
    have = list(out[1])
    it = iter(have)
    if not all(any(q == h for h in it) for q in want):
        add_violation(res, "K:queries-of-plain-rules-differ", case, want, have)
    extra = len(have) - len(want)
    if ref_failed and extra != 0:
        add_violation(res, "K:correlation-over-failed-rule:emits-a-query", case, want, have)
    if not ref_failed and extra < 1:
        add_violation(res, "K:correlation-query-missing", case, "one more query than the plain rules have", have)


def plan(tier, seed):
    return [(k, p, c, first) for k in KS for p in ("none", "P") for c in (False, True) for first in MENU] + [("det", 0, 0, 0)] + [("corr", p, c, first) for p in ("none", "P") for c in (False, True) for first in CMENU]


def run_shard(shard, tier, seed):
    res = new_result()
    st = E.Stats(res)
    kname, pname, collect, first = shard
    if kname == "det":
        E.determinism_check(lambda h: run_history(h, "Ka", "P", True)["canon"], E.histories(MENU, 2))
        judge(res, st, (), "Ka", "P", True)
        return res
    if kname == "corr":
        for hist in E.histories(CMENU, 2 if tier == "quick" else 3, prefix=(first,)):
            for ctype in ("event_count", "temporal"):
                for tail in (0, 1):
                    judge_corr(res, st, hist, ctype, tail, pname, collect)
        return res
    n = BOUNDS[tier]["n"]
    # every history up to n-1 rules over the full menu; histories of exactly n rules over the core menu (one rule kind per mechanism)
    hists = list(E.histories(MENU, n - 1, prefix=(first,)))
    if first in CORE:
        hists += [h for h in E.histories(CORE, n, prefix=(first,)) if len(h) == n]
    for hist in hists:
        judge(res, st, hist, kname, pname, collect)
        if len(res["samples"]) < 1 and len(hist) == n:
            res["samples"].append({"history": list(hist), "backend": kname, "pipeline": pname, "collect_errors": collect})
    return res


def replay(case):
    res = new_result()
    st = E.Stats(res)
    judge(res, st, tuple(case["history"]), case["backend"], case["pipeline"], case["collect_errors"])
    return res["violations"]
