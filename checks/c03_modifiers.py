"""C03 - value modifiers produce exactly the values the specification defines."""
import itertools

from mc import refsigma as R
from mc.runner import add_violation, h64, new_result

PROPERTY = "C03"
LEVEL = "exploration"
RULE = (
    "prefix-tree enumeration of ALL modifier chains up to the length bound over the full modifier table (33 ids) for every "
    "value of the value space (strings up to the length bound over an alphabet with wildcards, backslash, percent, dash, slash, "
    "blank, non-ASCII; spec witnesses; ints, float, bools, null; 2-element lists); SigmaDetectionItem.from_mapping is projected "
    "to (values, linking, negated) or the exception class and compared with the three-valued reference (accept/reject/unspecified). "
    "A sub-tree is pruned only below a prefix that both the reference and the implementation reject (both stop at the first "
    "failing modifier). non-trivial = chain of length >= 1 that the reference accepts; distinct by (value, chain)."
)
ASSUMPTIONS = [
    "reference semantics in mc/refsigma.py (from the property statement and the Sigma specification); encodings use the library's byte-smuggling representation (their byte meaning is judged by C04)",
    "where the statement defines nothing the outcome is only required to be a value or a SigmaError",
]
ALPHA = ["a", "-", "/", " ", "*", "?", "\\", "%", "é"]
WITNESS = ["-a -b", "a-b", "/x", "%u%", "\\%u\\%", "a%u%b%v%", "*a*", "\\*a", "a\\", "-a/b", " -x", "a -b /c", "a*-b", "10.0.0.0/8", "10.0.0.1/8", "^a.*$", "a(", ".*a", "a$", "f2", "%a%%b%",
           # several parts (wildcards between) with text before a later dash
           "cmd -a*run -b", "-a?x -b*y /c", "a*b -c", "x -a*-b", "p -a\\*q -b"]
SCALARS = [0, 7, -1, 1.5, True, False, None]
LISTS = [["a", "b"], ["-a", "*b"], ["a", 7], [1, 2], ["a*", None], [True, False], ["a%u%", "\\*"], []]
BOUNDS = {
    "quick": dict(strlen_full=3, depth_full=3, strlen_deep=2, depth_deep=4),
    "thorough": dict(strlen_full=4, depth_full=3, strlen_deep=3, depth_deep=4),
}


def bounds(tier):
    b = dict(BOUNDS[tier])
    b.update(alphabet=ALPHA, witnesses=WITNESS, scalars=[repr(x) for x in SCALARS], lists=LISTS, modifiers=len(R.ALL_MODIFIERS),
             note="values up to strlen_full (+witnesses, scalars, lists) x chains up to depth_full; strings up to strlen_deep x chains up to depth_deep")
    return b


def strings(maxlen, minlen=0):
    for n in range(minlen, maxlen + 1):
        for t in itertools.product(ALPHA, repeat=n):
            yield "".join(t)


def vclass(v):
    if isinstance(v, list):
        return "list"
    if isinstance(v, bool):
        return "bool"
    if isinstance(v, int):
        return "int"
    if isinstance(v, float):
        return "float"
    if v is None:
        return "null"
    if v == "":
        return "str-empty"
    c = []
    if "\\" in v:
        c.append("backslash")
    if "*" in v or "?" in v:
        c.append("wild")
    if "%" in v:
        c.append("percent")
    if "-" in v or "/" in v:
        c.append("dash")
    if any(ord(x) > 127 for x in v):
        c.append("nonascii")
    return "str-" + ("+".join(c) if c else "plain")


def canon(vals):
    out = []
    for v in vals:
        v = R.flatten_exp(v)
        if v[0] == "exp":
            v = ("exp", tuple(sorted(v[1], key=repr)))
        out.append(v)
    return out


def run_impl(key, value):
    from sigma.conditions import ConditionAND
    from sigma.exceptions import SigmaError
    from sigma.rule import SigmaDetectionItem

    try:
        item = SigmaDetectionItem.from_mapping(key, value)
    except SigmaError as e:
        return ("reject", type(e).__name__)
    except Exception as e:
        return ("crash", type(e).__name__, repr(e)[:160])
    try:
        vals = canon([R.project_value(v) for v in item.value])
    except Exception as e:
        return ("crash", "projection:" + type(e).__name__, repr(e)[:160])
    if key.count("|") <= 2 and item.original_value is not None:
        # modifiers leave their input alone: a second item built from the value objects the first item was given
        # (same modifier chain) has the same values
        try:
            again = SigmaDetectionItem("f", list(item.modifiers), list(item.original_value))
            vals2 = canon([R.project_value(v) for v in again.value])
        except Exception as e:
            return ("crash", "second-item-from-same-value-objects:" + type(e).__name__, repr(e)[:160])
        if vals2 != vals:
            return ("crash", "second-item-from-same-value-objects-differs", repr((vals, vals2))[:200])
        # ... and an unmodified item built from the same value objects afterwards has the values a fresh unmodified item has
        if "re" in key.split("|")[1:]:  # values of a regular expression item are read without escape processing: no unmodified counterpart
            return ("ok", vals, "and" if item.value_linking is ConditionAND else "or", bool(item.negated))
        try:
            plain = canon([R.project_value(v) for v in SigmaDetectionItem("f", [], list(item.original_value)).value])
            fresh = canon([R.project_value(v) for v in SigmaDetectionItem.from_mapping("f", value).value])
        except Exception as e:
            return ("crash", "plain-item-from-same-value-objects:" + type(e).__name__, repr(e)[:160])
        if plain != fresh:
            return ("crash", "value-objects-changed-by-the-modifiers", repr((fresh, plain))[:200])
    return ("ok", vals, "and" if item.value_linking is ConditionAND else "or", bool(item.negated))


def run_ref(value, chain):
    raw = value if isinstance(value, list) else [value]
    try:
        vals, linking, neg = R.apply_chain(raw, list(chain))
    except R.Reject as e:
        return ("reject", str(e))
    except R.Unspecified as e:
        return ("unspec", str(e))
    return ("ok", canon(vals), linking, neg)


def judge(res, value, chain):
    """returns True if the sub-tree below this chain may be pruned"""
    key = "f" + "".join("|" + m for m in chain)
    got = run_impl(key, value)
    ref = run_ref(value, chain)
    res["evaluations"] += 1
    case = {"value": value, "chain": list(chain)}
    mod = chain[-1] if chain else "-"
    prev = chain[-2] if len(chain) > 1 else "-"
    vc = vclass(value)
    res["outcomes"].add(h64([got[0], ref[0]]))
    if got[0] == "crash":
        add_violation(res, f"non-sigma-exception:{got[1]}:{mod}:{vc}", case, ref[0], got[2])
        return True
    if ref[0] == "unspec":
        return False
    if ref[0] == "reject":
        if got[0] != "reject":
            add_violation(res, f"accepted-but-spec-rejects:{mod}:{vc}:after-{prev}", case, "SigmaError (" + ref[1] + ")", got[1:])
            return False
        return True
    # reference accepts
    if chain:
        res["nontrivial"].add(h64([value, chain]))
    if got[0] == "reject":
        add_violation(res, f"rejected-but-spec-accepts:{mod}:{vc}:after-{prev}", case, ref[1:], got[1])
        return True
    if got[1] != ref[1]:
        add_violation(res, f"value-differs:{mod}:{vc}:after-{prev}", case, ref[1], got[1])
        return True  # extensions of an already wrong prefix add nothing
    elif got[2] != ref[2]:
        add_violation(res, f"linking-differs:{mod}:{vc}", case, ref[2], got[2])
        return True
    elif got[3] != ref[3]:
        add_violation(res, f"negation-differs:{mod}:{vc}", case, ref[3], got[3])
        return True
    return False


def explore(res, value, depth, chain=()):
    prune = judge(res, value, chain)
    if prune or len(chain) >= depth:
        return
    for m in R.ALL_MODIFIERS:
        explore(res, value, depth, chain + (m,))


def value_space(tier):
    b = BOUNDS[tier]
    seen = set()
    for v in itertools.chain(strings(b["strlen_full"]), WITNESS):
        if v not in seen:
            seen.add(v)
            yield v, b["depth_full"]
    for v in SCALARS + LISTS:
        yield v, max(b["depth_full"], b["depth_deep"])
    for v in strings(b["strlen_deep"]):
        if v not in seen:
            seen.add(v)
            yield v, b["depth_deep"]


NSH = 64


def plan(tier, seed):
    return list(range(NSH))


def run_shard(shard, tier, seed):
    res = new_result()
    for idx, (v, depth) in enumerate(value_space(tier)):
        if idx % NSH == shard:
            explore(res, v, depth)
            if len(res["samples"]) < 2 and isinstance(v, str) and len(v) >= 2:
                res["samples"].append({"value": v, "chains": "all up to depth %d (prefix tree)" % depth})
    return res


def replay(case):
    res = new_result()
    judge(res, case["value"], tuple(case["chain"]))
    return res["violations"]
