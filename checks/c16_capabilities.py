"""C16 - a pipeline file cannot grant itself code execution, file or network access."""
import copy
import itertools
import os
import shutil
import sys
import tempfile

import yaml

from mc.runner import add_violation, h64, new_result

PROPERTY = "C16"
LEVEL = "fault_enumeration"
RULE = (
    "fault enumeration over pipeline documents: every capability-bearing item (file / http / command placeholder "
    "transformation, post-processing template with vars, finalizer template with vars) x every placement (top level, nested "
    "transformation / nested finalizer at depth 1-3) x every injection of the opt-in keys {allow_external_sources, "
    "allow_template_vars, vars_allowed_paths} with truthy values at every level (single and pairs) with default caller "
    "arguments; plus the policy product caller flags x both environment variables in {unset,0,1,true,TRUE,yes} and the "
    "vars-path product {inside, outside, symlink to outside, prefix-sharing sibling} x {vars_allowed_paths, source_path}; "
    "entry points from_yaml / from_dict / resolver-from-file. A CPython audit hook records subprocess / os.system / "
    "socket / open(sentinel) / exec(vars file) events, sentinel files double-check. Oracle: event <=> reference policy; "
    "not allowed => SigmaSecurityError (or configuration error) and no event. non-trivial = case with an injected key or a "
    "non-default flag/environment."
)
RULE += (" " + "After a security error the same pipeline and backend objects are used for two more rules and all capability events count. The caller's allow-list may be empty (no directory allowed).")
ASSUMPTIONS = ["CPython audit events see every process/file/socket/exec operation of the anchored code (no ctypes / C extensions)",
               "reference policy: allowed <=> caller argument true or environment value in {1,true} case-insensitively; vars file additionally inside an allowed directory when such directories are in force"]
TRUTHY = [True, 1, "yes", ["/"]]
ENVVALS = [None, "0", "1", "true", "TRUE", "yes"]
EXT_ENV = "PYSIGMA_ALLOW_EXTERNAL_SOURCES"
VARS_ENV = "PYSIGMA_ALLOW_VARS_EXECUTION"
BOUNDS = {"quick": dict(depth=2, pairs=False), "thorough": dict(depth=4, pairs=True)}

EVENTS = []
_ARMED = [False]
_WATCH = {}


def _hook(event, args):
    if not _ARMED[0]:
        return
    try:
        if event in ("subprocess.Popen", "os.system", "os.posix_spawn", "os.exec", "os.fork"):
            EVENTS.append(("process", event))
        elif event in ("socket.connect", "socket.getaddrinfo", "socket.gethostbyname"):
            EVENTS.append(("network", event))
        elif event == "open":
            p = args[0]
            if isinstance(p, (str, bytes)):
                p = os.fsdecode(p)
                rp = os.path.realpath(p)
                for tag, wp in _WATCH.items():
                    if rp == wp:
                        EVENTS.append(("open", tag))
        elif event == "exec":
            code = args[0]
            fn = getattr(code, "co_filename", "")
            for tag, wp in _WATCH.items():
                if tag.startswith("vars") and os.path.realpath(fn) == wp:
                    EVENTS.append(("exec", tag))
    except Exception:
        pass


_HOOKED = [False]


def arm():
    if not _HOOKED[0]:
        sys.addaudithook(_hook)
        _HOOKED[0] = True


def bounds(tier):
    return dict(BOUNDS[tier], truthy_values=[repr(t) for t in TRUTHY], env_values=[repr(e) for e in ENVVALS],
                items=["file_placeholders", "http_placeholders", "command_placeholders", "postprocessing template+vars", "finalizer template+vars"])


class Env:
    """temporary directory layout: allowed/, allowed/vars_in.py, outside/vars_out.py, allowed/link.py -> outside/vars_out.py, allowed_x/vars_sib.py"""

    def __init__(self):
        self.root = os.path.realpath(tempfile.mkdtemp(prefix="c16_"))
        self.allowed = os.path.join(self.root, "allowed")
        self.outside = os.path.join(self.root, "outside")
        self.sibling = os.path.join(self.root, "allowed_x")
        for d in (self.allowed, self.outside, self.sibling):
            os.makedirs(d)
        self.sentinel = os.path.join(self.root, "SENTINEL")
        self.source = os.path.join(self.root, "source.txt")
        with open(self.source, "w") as f:
            f.write("v1\nv2\n")
        body = "open(%r, 'a').write('x')\nvars = {'k': 'v'}\n" % self.sentinel
        self.vars = {"inside": os.path.join(self.allowed, "vars_in.py"), "outside": os.path.join(self.outside, "vars_out.py"),
                     "sibling": os.path.join(self.sibling, "vars_sib.py")}
        for p in self.vars.values():
            with open(p, "w") as f:
                f.write(body)
        self.vars["symlink"] = os.path.join(self.allowed, "link.py")
        os.symlink(self.vars["outside"], self.vars["symlink"])
        self.pipefile = os.path.join(self.allowed, "pipeline.yml")

    def reset(self):
        if os.path.exists(self.sentinel):
            os.unlink(self.sentinel)

    def close(self):
        shutil.rmtree(self.root, ignore_errors=True)


def item_dict(kind, env, varsloc="inside"):
    if kind == "file":
        return "transformations", {"id": "cap", "type": "file_placeholders", "path": env.source}
    if kind == "http":
        return "transformations", {"id": "cap", "type": "http_placeholders", "url": "http://127.0.0.1:9/list", "timeout": 1}
    if kind == "command":
        return "transformations", {"id": "cap", "type": "command_placeholders", "cmd": f"echo v1; touch {env.sentinel}"}
    if kind == "post_template":
        return "postprocessing", {"type": "template", "template": "{{ query }}", "vars": env.vars[varsloc]}
    if kind == "fin_template":
        return "finalizers", {"type": "template", "template": "{{ queries | join(';') }}", "vars": env.vars[varsloc]}
    raise ValueError(kind)


def nest(section, item, depth):
    """wrap item into `depth` nesting levels; returns (section, outer item, list of dict levels from outer to inner)"""
    levels = [item]
    cur = item
    for d in range(depth):
        if section == "transformations":
            cur = {"id": f"n{d}", "type": "nest", "items": [cur]}
        elif section == "finalizers":
            cur = {"type": "nested", "finalizers": [cur]}
        else:
            cur = {"type": "nest", "items": [cur]}
        levels.insert(0, cur)
    return cur, levels


def expected_capability(kind):
    return {"file": ("open", "source"), "http": ("network", None), "command": ("process", None)}.get(kind, ("exec", None))


def policy(kind, caller, envs, depth, varsloc, restricted):
    """is the capability allowed? returns True/False/None(unspecified)"""
    if kind in ("file", "http", "command"):
        env_on = (envs.get(EXT_ENV) or "").lower() in ("1", "true")
        if caller.get("allow_external_sources") and depth > 0 and not env_on:
            return None  # caller opt-in is not propagated into nested pipelines (stricter than required): not judged
        return bool(caller.get("allow_external_sources")) or env_on
    env_on = (envs.get(VARS_ENV) or "").lower() in ("1", "true")
    on = bool(caller.get("allow_template_vars")) or env_on
    if not on:
        return False
    if caller.get("allow_template_vars") and depth > 0 and kind == "post_template" and not env_on:
        return None
    if restricted and varsloc != "inside":
        if not caller.get("allow_template_vars") and env_on and depth > 0:
            return None
        return False
    return True


def run_case(env, kind, depth, injections, caller, envs, varsloc, entry, source_path):
    """returns (events, outcome) ; injections: list of (level index or 'top', key, value)"""
    from sigma.collection import SigmaCollection
    from sigma.exceptions import SigmaConfigurationError, SigmaError, SigmaSecurityError
    from sigma.processing.pipeline import ProcessingPipeline
    from sigma.processing.resolver import ProcessingPipelineResolver
    from sigma.rule import SigmaRule
    from mc import vbackend as V

    section, item = item_dict(kind, env, varsloc)
    outer, levels = nest(section, copy.deepcopy(item), depth)
    doc = {"name": "c16", "priority": 10, section: [outer]}
    for where, key, value in injections:
        if where == "top":
            doc[key] = copy.deepcopy(value)
        else:
            levels[where][key] = copy.deepcopy(value)
    kwargs = {}
    for k in ("allow_external_sources", "allow_template_vars", "vars_allowed_paths"):
        if k in caller and caller[k] is not None:
            kwargs[k] = caller[k]
    old = {k: os.environ.get(k) for k in (EXT_ENV, VARS_ENV)}
    for k in (EXT_ENV, VARS_ENV):
        if envs.get(k) is None:
            os.environ.pop(k, None)
        else:
            os.environ[k] = envs[k]
    env.reset()
    del EVENTS[:]
    _WATCH.clear()
    _WATCH["source"] = os.path.realpath(env.source)
    for nm, p in env.vars.items():
        _WATCH["vars-" + nm] = os.path.realpath(p)
    outcome = None
    _ARMED[0] = True
    try:
        try:
            if entry == "from_dict":
                pipe = ProcessingPipeline.from_dict(copy.deepcopy(doc), **kwargs)
            elif entry == "from_yaml":
                if source_path:
                    kwargs["source_path"] = env.pipefile
                pipe = ProcessingPipeline.from_yaml(yaml.safe_dump(doc), **kwargs)
            elif entry == "resolver-dir":  # the pipeline file is found through a directory spec
                with open(env.pipefile, "w") as f:
                    yaml.safe_dump(doc, f)
                pipe = ProcessingPipelineResolver().resolve([os.path.dirname(env.pipefile)])
            else:  # resolver from file (always default arguments, source_path = the file)
                with open(env.pipefile, "w") as f:
                    yaml.safe_dump(doc, f)
                pipe = ProcessingPipelineResolver().resolve([env.pipefile])
            # placeholders in a string, in a regular expression and in a keyword
            rule = SigmaRule.from_dict({"title": "t", "logsource": {"category": "c"}, "detection": {"sel": {"f|expand": "%P%"}, "sel2": {"h|re|expand": "^%P%$"}, "kw": {"|expand": ["x%P%"]},
                                                                                                     "condition": ["sel", "sel2", "kw"]}})
            backend = V.make_backend_class(V.K())(pipe)
            out = backend.convert(SigmaCollection([rule]))
            outcome = ("ok", str(out)[:80])
        except SigmaSecurityError as e:
            outcome = ("security-error",)
            # the refusal is not a one-off: the same pipeline / backend objects are used for two more rules
            # (every capability event of these attempts is recorded with the case)
            for attempt in range(2):
                try:
                    r2 = SigmaRule.from_dict({"title": f"t{attempt}", "logsource": {"category": "c"}, "detection": {"sel": {"g|expand": "%P%"} if attempt == 0 else {"g|re|expand": "a%P%"}, "condition": "sel"}})
                    if "backend" in locals():
                        backend.convert(SigmaCollection([r2]))
                    elif "pipe" in locals():
                        V.make_backend_class(V.K())(pipe, collect_errors=True).convert(SigmaCollection([r2]))
                except Exception:
                    pass
        except SigmaConfigurationError as e:
            outcome = ("config-error", str(e)[:120])
        except SigmaError as e:
            outcome = ("sigma-error", type(e).__name__, str(e)[:120])
        except Exception as e:
            outcome = ("other-error", type(e).__name__, str(e)[:120])
    finally:
        _ARMED[0] = False
        for k, v in old.items():
            if v is None:
                os.environ.pop(k, None)
            else:
                os.environ[k] = v
    events = sorted(set(EVENTS))
    if os.path.exists(env.sentinel):
        events.append(("sentinel", "written"))
    return events, outcome


def capability_events(kind, events, varsloc):
    want = expected_capability(kind)
    hits = []
    for e in events:
        if kind == "file" and e == ("open", "source"):
            hits.append(e)
        elif kind == "http" and e[0] == "network":
            hits.append(e)
        elif kind == "command" and (e[0] == "process" or e == ("sentinel", "written")):
            hits.append(e)
        elif kind in ("post_template", "fin_template") and (e[0] == "exec" or e == ("sentinel", "written")):
            hits.append(e)
    return hits


def judge(res, env, kind, depth, injections, caller, envs, varsloc="inside", entry="from_dict", source_path=False, sub="inj"):
    case = {"sub": sub, "kind": kind, "depth": depth, "injections": [list(map(repr, i)) for i in injections], "caller": {k: repr(v) for k, v in caller.items()},
            "env": envs, "varsloc": varsloc, "entry": entry, "source_path": source_path}
    res["evaluations"] += 1
    if injections or caller or any(envs.values()):
        res["nontrivial"].add(h64(case))
    events, outcome = run_case(env, kind, depth, injections, caller, envs, varsloc, entry, source_path)
    hits = capability_events(kind, events, varsloc)
    restricted = caller.get("vars_allowed_paths") is not None or (entry == "from_yaml" and source_path) or entry in ("resolver", "resolver-dir")
    allowed = policy(kind, caller, envs, depth, varsloc, restricted)
    if caller.get("vars_allowed_paths") == () and kind in ("post_template", "fin_template") and allowed:
        allowed = False  # an empty list of allowed directories is in force: no variables file lies inside it
    if entry in ("resolver", "resolver-dir"):
        allowed = policy(kind, {}, envs, depth, varsloc, True)
    res["outcomes"].add(h64([bool(hits), outcome[0]]))
    where = "top" if depth == 0 else f"nested{depth}"
    if outcome[0] == "other-error":
        add_violation(res, f"non-sigma-exception:{outcome[1]}:{kind}:{where}", case, "SigmaError", outcome)
        return
    if allowed is None:
        return
    if not allowed:
        if hits:
            inj = "+".join(sorted({f"{k}@{'top' if w == 'top' else 'level'}" for w, k, v in injections})) or "no-injection"
            add_violation(res, f"capability-used-without-opt-in:{kind}:{where}:{inj}:{varsloc}", case, "no process/file/network/exec event", {"events": events, "outcome": outcome})
        elif outcome[0] not in ("security-error", "config-error"):
            add_violation(res, f"no-security-error:{kind}:{where}:{outcome[0]}", case, "SigmaSecurityError", outcome)
    else:
        if not hits:
            add_violation(res, f"capability-not-available-although-opted-in:{kind}:{where}:{outcome[0]}", case, "capability event (positive control)", {"events": events, "outcome": outcome})


def injection_points(depth):
    """'top' and every nesting level index (0 = outermost item ... depth = the capability item itself)"""
    return ["top"] + list(range(depth + 1))


KINDS = ["file", "http", "command", "post_template", "fin_template"]
KEYS = ["allow_external_sources", "allow_template_vars", "vars_allowed_paths"]


def depths_for(kind, tier):
    if kind == "post_template":
        return [0]  # nested post-processing cannot be written in pipeline YAML (items must be objects)
    return list(range(BOUNDS[tier]["depth"] + 1))


def plan(tier, seed):
    return [("inj", k) for k in KINDS] + [("policy", k) for k in KINDS] + [("vars", k) for k in ("post_template", "fin_template")] + [("entry", 0)]


def run_shard(shard, tier, seed):
    res = new_result()
    arm()
    env = Env()
    try:
        sub, kind = shard
        if sub == "inj":
            for depth in depths_for(kind, tier):
                pts = injection_points(depth)
                singles = [(w, k, v) for w in pts for k in KEYS for v in TRUTHY]
                for inj in singles:
                    judge(res, env, kind, depth, [inj], {}, {}, sub="inj")
                if BOUNDS[tier]["pairs"] or depth <= 1:
                    for a, b in itertools.combinations([(w, k, True) for w in pts for k in KEYS], 2):
                        if (a[0], a[1]) != (b[0], b[1]):
                            judge(res, env, kind, depth, [a, b], {}, {}, sub="inj-pair")
                judge(res, env, kind, depth, [], {}, {}, sub="inj-none")
            res["samples"].append({"sub": "inj", "kind": kind, "injection": ["level1", "allow_external_sources", True]})
        elif sub == "policy":
            flag = "allow_external_sources" if kind in ("file", "http", "command") else "allow_template_vars"
            envname = EXT_ENV if flag == "allow_external_sources" else VARS_ENV
            other = VARS_ENV if envname == EXT_ENV else EXT_ENV
            for depth in depths_for(kind, tier)[:2]:
                for fl in (None, False, True):
                    for ev in ENVVALS:
                        for ov in (None, "1"):
                            caller = {} if fl is None else {flag: fl}
                            judge(res, env, kind, depth, [], caller, {envname: ev, other: ov}, sub="policy")
                # the other flag must not enable this capability
                oflag = "allow_template_vars" if flag == "allow_external_sources" else "allow_external_sources"
                judge(res, env, kind, depth, [], {oflag: True}, {}, sub="policy-other-flag") if not (oflag == "allow_external_sources" and kind in ("post_template", "fin_template")) else None
            res["samples"].append({"sub": "policy", "kind": kind, "env": {envname: "TRUE"}})
        elif sub == "vars":
            for depth in depths_for(kind, tier):
                for loc in ("inside", "outside", "symlink", "sibling"):
                    for vap in (None, "dir", "empty"):
                        for sp in (False, True):
                            for entry in ("from_yaml", "from_dict"):
                                if entry == "from_dict" and sp:
                                    continue
                                for how in ("flag", "env"):
                                    caller = {"allow_template_vars": True} if how == "flag" else {}
                                    if vap:
                                        caller["vars_allowed_paths"] = (env.allowed,) if vap == "dir" else ()
                                    envs = {VARS_ENV: "1"} if how == "env" else {}
                                    judge(res, env, kind, depth, [], caller, envs, varsloc=loc, entry=entry, source_path=sp, sub="vars")
                    # injected vars_allowed_paths must not widen the caller's restriction
                    judge(res, env, kind, depth, [(depth, "vars_allowed_paths", ["/"])], {"allow_template_vars": True, "vars_allowed_paths": (env.allowed,)}, {}, varsloc=loc, sub="vars-inject")
            res["samples"].append({"sub": "vars", "kind": kind, "location": "symlink", "vars_allowed_paths": "allowed/"})
        else:
            for kind in KINDS:
                for entry in ("from_yaml", "from_dict", "resolver", "resolver-dir"):
                    for inj in ([], [(0, "allow_external_sources", True)], [(0, "allow_template_vars", True)], [(0, "vars_allowed_paths", ["/"])]):
                        for loc in ("inside", "outside"):
                            judge(res, env, kind, 0, inj, {}, {}, varsloc=loc, entry=entry, sub="entry")
                    for ev in ("1", None):
                        for entry in ("resolver", "resolver-dir"):
                            for loc in ("outside", "inside", "sibling"):
                                judge(res, env, kind, 0, [], {}, {EXT_ENV: ev, VARS_ENV: ev}, varsloc=loc, entry=entry, sub="entry-env")
            res["samples"].append({"sub": "entry", "entry": "resolver"})
    finally:
        env.close()
    return res


def replay(case):
    res = new_result()
    arm()
    env = Env()
    try:
        inj = [tuple(eval(x) for x in i) for i in case["injections"]]
        caller = {k: eval(v) for k, v in case["caller"].items()}
        if "vars_allowed_paths" in caller and caller["vars_allowed_paths"]:
            caller["vars_allowed_paths"] = (env.allowed,)
        judge(res, env, case["kind"], case["depth"], inj, caller, case["env"], case["varsloc"], case["entry"], case["source_path"], case["sub"])
    finally:
        env.close()
    return res["violations"]
