"""Enumerators for boolean expression trees and their printings (E2)."""
import itertools

# tree: ("leaf", x) | ("not", t) | ("and", l, r) | ("or", l, r)


def trees_exact(k, leaves, ops=("and", "or"), with_not=True, _memo=None):
    """all trees with exactly k operators (not counts as one operator), deterministic order"""
    if _memo is None:
        _memo = {}
    if k in _memo:
        return _memo[k]
    if k == 0:
        out = [("leaf", x) for x in leaves]
    else:
        out = []
        if with_not:
            out.extend(("not", t) for t in trees_exact(k - 1, leaves, ops, with_not, _memo))
        for i in range(k):
            ls = trees_exact(i, leaves, ops, with_not, _memo)
            rs = trees_exact(k - 1 - i, leaves, ops, with_not, _memo)
            for op in ops:
                for l in ls:
                    for r in rs:
                        out.append((op, l, r))
    _memo[k] = out
    return out


def trees_upto(k, leaves, ops=("and", "or"), with_not=True):
    memo = {}
    for n in range(k + 1):
        yield from trees_exact(n, leaves, ops, with_not, memo)


def count_ops(t):
    if t[0] == "leaf":
        return 0
    return 1 + sum(count_ops(x) for x in t[1:])


PREC = {"or": 1, "and": 2, "not": 3, "leaf": 4}


def print_min(t, tok=None, leaf=str):
    """minimal parentheses under NOT > AND > OR, binary operators left-associative"""
    tok = tok or {"and": "and", "or": "or", "not": "not"}
    k = t[0]
    if k == "leaf":
        return leaf(t[1])
    if k == "not":
        a = t[1]
        s = print_min(a, tok, leaf)
        if PREC[a[0]] < PREC["not"]:
            s = "(" + s + ")"
        return tok["not"] + " " + s
    l, r = t[1], t[2]
    ls, rs = print_min(l, tok, leaf), print_min(r, tok, leaf)
    if PREC[l[0]] < PREC[k]:
        ls = "(" + ls + ")"
    if PREC[r[0]] <= PREC[k]:  # right operand of the same level needs parentheses (left assoc)
        rs = "(" + rs + ")"
    return ls + " " + tok[k] + " " + rs


def print_full(t, tok=None, leaf=str):
    tok = tok or {"and": "and", "or": "or", "not": "not"}
    k = t[0]
    if k == "leaf":
        return leaf(t[1])
    if k == "not":
        return "(" + tok["not"] + " " + print_full(t[1], tok, leaf) + ")"
    return "(" + print_full(t[1], tok, leaf) + " " + tok[k] + " " + print_full(t[2], tok, leaf) + ")"


def print_flat_assoc(t, tok=None, leaf=str):
    """like print_min but never parenthesises a same-operator right operand when the operator is associative
    (a and (b and c) is printed a and b and c) - the boolean function is the same"""
    tok = tok or {"and": "and", "or": "or", "not": "not"}
    k = t[0]
    if k == "leaf":
        return leaf(t[1])
    if k == "not":
        a = t[1]
        s = print_flat_assoc(a, tok, leaf)
        if PREC[a[0]] < PREC["not"]:
            s = "(" + s + ")"
        return tok["not"] + " " + s
    l, r = t[1], t[2]
    ls, rs = print_flat_assoc(l, tok, leaf), print_flat_assoc(r, tok, leaf)
    if PREC[l[0]] < PREC[k]:
        ls = "(" + ls + ")"
    if PREC[r[0]] < PREC[k]:
        rs = "(" + rs + ")"
    return ls + " " + tok[k] + " " + rs


def evaluate(t, env):
    k = t[0]
    if k == "leaf":
        return env(t[1])
    if k == "not":
        return not evaluate(t[1], env)
    if k == "and":
        return evaluate(t[1], env) and evaluate(t[2], env)
    return evaluate(t[1], env) or evaluate(t[2], env)


def leaves_of(t, out=None):
    if out is None:
        out = []
    if t[0] == "leaf":
        out.append(t[1])
    else:
        for x in t[1:]:
            leaves_of(x, out)
    return out


def assignments(atoms):
    atoms = list(atoms)
    for bits in itertools.product((False, True), repeat=len(atoms)):
        yield dict(zip(atoms, bits))
