"""Reference semantics of a Sigma detection section -> formula over canonical atoms (imports nothing from sigma)."""
import ipaddress
import re

from mc import formula as F
from mc import refsigma as R
from mc import trees as T


class RefUnsupported(Exception):
    """reference does not define this (unspecified / rejected input)"""


def cidr_patterns_v4(text):
    """independent re-statement of the documented expansion: octet-aligned prefixes"""
    net = ipaddress.ip_network(text)
    if net.version != 4:
        raise RefUnsupported("only IPv4 expansion is modelled here (IPv6: C18)")
    plen = net.prefixlen
    nxt = -(-plen // 8) * 8  # next multiple of 8
    base = int(net.network_address)
    out = []
    for k in range(1 << (nxt - plen)):
        sub = base + (k << (32 - nxt))
        octs = [(sub >> s) & 255 for s in (24, 16, 8, 0)][: nxt // 8]
        if nxt == 32:
            out.append((".".join(map(str, octs)),))
        elif nxt == 0:
            out.append((R.MULTI,))
        else:
            out.append((".".join(map(str, octs)) + ".", R.MULTI))
    return out


def value_formula(field, v, opts):
    k = v[0]
    if k == "exp":
        return F.OR([value_formula(field, x, opts) for x in v[1]])
    if k == "str":
        return F.a_str(field, v[1], v[2])
    if field is None and k not in ("num", "re"):
        raise RefUnsupported("keyword of type " + k)
    if k == "num":
        return F.a_num(field, v[1])
    if k == "bool":
        return F.a_bool(field, v[1])
    if k == "null":
        return F.a_null(field)
    if k == "re":
        return F.a_re(field, v[1], v[2])
    if k == "cidr":
        if opts.get("native_cidr", True):
            return F.a_cidr(field, str(ipaddress.ip_network(v[1])))
        return F.OR([F.a_str(field, False, p) for p in cidr_patterns_v4(v[1])])
    if k == "cmp":
        if v[2][0] == "tspart":
            return F.a_ts(field, v[2][1], v[1], v[2][2])
        return F.a_cmp(field, v[1], v[2][1])
    if k == "tspart":
        return F.a_ts(field, v[1], "EQ", v[2])
    if k == "fieldref":
        return F.a_fieldref(field, v[1], v[2], v[3])
    if k == "exists":
        return F.a_exists(field) if v[1] else F.NOT(F.a_exists(field))
    raise RefUnsupported("value kind " + k)


def item_formula(key, value, opts):
    if key is None:
        field, chain = None, []
    else:
        field, *chain = key.split("|")
        if field == "":
            field = None
    raw = value if isinstance(value, list) else [value]
    if field in opts.get("field_map", {}):
        pass
    try:
        vals, linking, neg = R.apply_chain(raw, chain, has_field=field is not None)
    except (R.Reject, R.Unspecified) as e:
        raise RefUnsupported(str(e))
    if not vals:  # empty list: field is null
        if field is None:
            raise RefUnsupported("empty keyword list")
        f = F.a_null(field)
    else:
        fs = [value_formula(field, v, opts) for v in vals]
        f = fs[0] if len(fs) == 1 else (F.AND(fs) if linking == "and" else F.OR(fs))
    return F.NOT(f) if neg else f


def detection_formula(defn, opts):
    if isinstance(defn, dict):
        return F.AND([item_formula(k, v, opts) for k, v in defn.items()])
    if isinstance(defn, list):
        if all(not isinstance(x, (dict, list)) for x in defn):
            return item_formula(None, defn, opts)
        return F.OR([detection_formula(x, opts) for x in defn])
    return item_formula(None, defn, opts)


def selector_matches(pattern, names):
    if pattern == "them":
        return [n for n in names if not n.startswith("_")]
    rx = re.compile("".join(".*" if c == "*" else re.escape(c) for c in pattern))
    return [n for n in names if rx.fullmatch(n) and (pattern.startswith("_") or not n.startswith("_"))]


def condition_formula(tree, detections, opts):
    """tree leaves: ("n", name) | ("s", "1 of"/"any of"/"all of", pattern)"""
    names = [n for n in detections if n != "condition"]

    def leaf(l):
        if l[0] == "n":
            return detection_formula(detections[l[1]], opts)
        ms = selector_matches(l[2], names)
        if not ms:
            raise RefUnsupported("selector matches nothing")
        fs = [detection_formula(detections[n], opts) for n in ms]
        return F.AND(fs) if l[1] == "all of" else F.OR(fs)

    def rec(t):
        if t[0] == "leaf":
            return leaf(t[1])
        if t[0] == "not":
            return F.NOT(rec(t[1]))
        if t[0] == "and":
            return ("and", (rec(t[1]), rec(t[2])))
        return ("or", (rec(t[1]), rec(t[2])))

    return rec(tree)


def leaf_text(l):
    return l[1] if l[0] == "n" else f"{l[1]} {l[2]}"


def condition_text(tree, style="min"):
    tm = _map(tree)
    if style == "args":  # both operands of the root operator parenthesised: (l) op (r) - not enclosed as a whole
        if tm[0] in ("and", "or"):
            return "(" + T.print_min(tm[1]) + ") " + tm[0] + " (" + T.print_min(tm[2]) + ")"
        return T.print_min(tm)
    return {"min": T.print_min, "full": T.print_full, "flat": T.print_flat_assoc}[style](tm)


def _map(t):
    if t[0] == "leaf":
        return ("leaf", leaf_text(t[1]))
    return (t[0],) + tuple(_map(x) for x in t[1:])
