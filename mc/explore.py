"""E1 - explicit-state exploration of the implementation by history replay.

A state is the event history that reaches it; `build(history)` constructs fresh real objects and replays the events.
Histories are enumerated breadth-first (shortest first, menu order) so the first counterexample is the shortest."""
import itertools

from mc.runner import h64


def histories(menu, depth, prefix=()):
    """all histories of length <= depth that start with prefix (BFS order)"""
    for n in range(len(prefix), depth + 1):
        for tail in itertools.product(menu, repeat=n - len(prefix)):
            yield tuple(prefix) + tail


class Stats:
    def __init__(self, res):
        self.res = res
        res["sets"].setdefault("states", set())
        res["extra"].setdefault("transitions", 0)
        res["extra"].setdefault("histories", 0)

    def state(self, canon):
        self.res["sets"]["states"].add(h64(canon))

    def transition(self, n=1):
        self.res["extra"]["transitions"] += n

    def history(self):
        self.res["extra"]["histories"] += 1


def determinism_check(build_and_observe, hists, limit=20):
    """replay the first histories twice; observations must be identical (own the nondeterminism)"""
    for h in itertools.islice(hists, limit):
        a = build_and_observe(h)
        b = build_and_observe(h)
        if a != b:
            raise RuntimeError(f"non-deterministic replay of history {h!r}: {a!r} != {b!r}")
