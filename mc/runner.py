"""Common runner: sharding over worker processes, verdict protocol, replay files, evidence.

A check module provides:
  PROPERTY, LEVEL, RULE (str), ASSUMPTIONS (list[str])
  plan(tier, seed)            -> list of picklable shard descriptors that partition the bounded space
  run_shard(shard, tier, seed)-> ShardResult (see new_result())
  replay(case)                -> list of violation dicts for exactly that case (re-executed on the real code)
  bounds(tier)                -> dict describing the bounds completed (goes into the evidence)
optional:
  finish(agg, tier, seed)     -> may add violations / coverage computed over the union of shards
  MIN_OUTCOMES                -> vacuity alarm threshold on distinct observed outcomes (default 2)
"""
import hashlib
import json
import multiprocessing as mp
import os
import subprocess
import sys
import time
import traceback

VERIF = os.path.dirname(os.path.dirname(os.path.abspath(__file__)))
REPO = os.environ.get("VERIF_REPO", "/repo")
MAX_VIOL_PER_SIG = 3


def bind_repo():
    """Make sure `import sigma` executes the working tree under REPO."""
    if sys.path[0] != REPO:
        sys.path.insert(0, REPO)
    import sigma.types

    f = os.path.realpath(sigma.types.__file__)
    if not f.startswith(os.path.realpath(REPO) + os.sep):
        raise RuntimeError(f"sigma resolves to {f}, not below {REPO}")
    os.environ.setdefault("PYSIGMA_VERIF", "1")


def h64(obj) -> int:
    if not isinstance(obj, (str, bytes)):
        obj = json.dumps(obj, sort_keys=True, default=repr)
    if isinstance(obj, str):
        obj = obj.encode("utf-8", "surrogatepass")
    return int.from_bytes(hashlib.blake2b(obj, digest_size=8).digest(), "big")


def new_result():
    return {
        "evaluations": 0,  # executions of the real code
        "nontrivial": set(),  # h64 of distinct non-trivial canonical cases
        "violations": [],  # dicts: sig, case, expected, observed, detail
        "viol_count": {},  # sig -> count (all, also those not kept)
        "samples": [],
        "outcomes": set(),  # h64 of distinct observed outcomes (vacuity alarm)
        "extra": {},  # additive integer counters (states, transitions, ...)
        "sets": {},  # name -> set of h64, unioned over shards (e.g. distinct states)
    }


def add_violation(res, sig, case, expected=None, observed=None, detail=""):
    n = res["viol_count"].get(sig, 0)
    res["viol_count"][sig] = n + 1
    if n < MAX_VIOL_PER_SIG:
        res["violations"].append(
            {"sig": sig, "case": case, "expected": expected, "observed": observed, "detail": detail}
        )


def _worker(args):
    modname, shard, tier, seed = args
    try:
        bind_repo()
        import importlib
        import random

        random.seed(12345 + seed)
        mod = importlib.import_module(modname)
        r = mod.run_shard(shard, tier, seed)
        r["samples"] = r["samples"][:3]
        return ("ok", r)
    except BaseException:
        return ("err", f"shard {shard!r}: " + traceback.format_exc())


def merge(agg, r):
    agg["evaluations"] += r["evaluations"]
    agg["nontrivial"] |= r["nontrivial"]
    agg["outcomes"] |= r["outcomes"]
    for v in r["violations"]:
        k = sum(1 for w in agg["violations"] if w["sig"] == v["sig"])
        if k < MAX_VIOL_PER_SIG:
            agg["violations"].append(v)
    for s, n in r["viol_count"].items():
        agg["viol_count"][s] = agg["viol_count"].get(s, 0) + n
    if len(agg["samples"]) < 8:
        agg["samples"].extend(r["samples"][: 8 - len(agg["samples"])])
    for k, n in r["extra"].items():
        agg["extra"][k] = agg["extra"].get(k, 0) + n
    for k, s in r["sets"].items():
        agg["sets"].setdefault(k, set()).update(s)


def load_known(prop):
    p = os.path.join(VERIF, "known_findings.json")
    if not os.path.exists(p):
        return {}
    out = {}
    for e in json.load(open(p)):
        if e.get("property") == prop and e.get("status") == "known":
            for s in e["signatures"]:
                out[s] = e
    return out


def write_replay(prop, v, idx):
    d = os.path.join(os.environ.get("VERIF_OUT_DIR") or os.path.join(VERIF, "out"), "replays")
    os.makedirs(d, exist_ok=True)
    sh = hashlib.sha1(v["sig"].encode()).hexdigest()[:10]
    path = os.path.join(d, f"{prop}-{sh}-{idx}.json")
    with open(path, "w") as f:
        json.dump({"property": prop, **v}, f, indent=1, sort_keys=True, default=repr)
    return path


def report(prop, violations, viol_count):
    """Print KNOWN-FINDING / VIOLATION lines; return number of unlisted violations (by signature)."""
    known = load_known(prop)
    seen_known, unknown = {}, {}
    for v in violations:
        if v["sig"] in known:
            seen_known.setdefault(known[v["sig"]]["id"], [known[v["sig"]], 0])
        else:
            unknown.setdefault(v["sig"], []).append(v)
    for s, n in viol_count.items():
        if s in known:
            seen_known[known[s]["id"]][1] += n
    for kid, (e, n) in sorted(seen_known.items()):
        print(f"KNOWN-FINDING: property={prop} {kid}: {e['what']} [{n} cases in this run]")
    nviol = 0
    for sig, vs in sorted(unknown.items()):
        for i, v in enumerate(vs[:1]):
            path = write_replay(prop, v, i)
            print(f"VIOLATION property={prop} replay={path}")
            print(f"  signature: {sig}  ({viol_count.get(sig, len(vs))} cases)")
            print(f"  case: {json.dumps(v['case'], default=repr)[:600]}")
            print(f"  expected: {json.dumps(v['expected'], default=repr)[:400]}")
            print(f"  observed: {json.dumps(v['observed'], default=repr)[:400]}")
            if v.get("detail"):
                print(f"  detail: {str(v['detail'])[:400]}")
        nviol += 1
    return nviol


def write_evidence(mod, tier, seed, agg, wall, nviol, exhaustive=True):
    cov = {
        "evaluations": agg["evaluations"],
        "distinct_nontrivial": len(agg["nontrivial"]),
        "rule": mod.RULE,
        "samples": agg["samples"][:8] or ["<none>"],
        "exhaustive": exhaustive,
        "distinct_outcomes": len(agg["outcomes"]),
        "bounds": mod.bounds(tier),
        "violation_signatures": {s: n for s, n in sorted(agg["viol_count"].items())},
    }
    for k, n in agg["extra"].items():
        cov[k] = n
    for k, s in agg["sets"].items():
        cov[k] = len(s)
    if mod.LEVEL == "model_checking":
        cov.setdefault("states", 0)
        cov.setdefault("transitions", 0)
        cov.setdefault("traces_validated_against_impl", agg["evaluations"])
    ev = {
        "property_id": mod.PROPERTY,
        "tier": tier,
        "seed": seed,
        "level": mod.LEVEL,
        "coverage": cov,
        "assumptions": list(mod.ASSUMPTIONS),
        "wall_s": round(wall, 2),
        "violations": nviol,
    }
    d = os.environ.get("VERIF_EVIDENCE_DIR") or os.path.join(VERIF, "evidence")
    os.makedirs(d, exist_ok=True)
    path = os.path.join(d, f"{mod.PROPERTY}.json")
    with open(path, "w") as f:
        json.dump(ev, f, indent=1, sort_keys=True, default=repr)
    # validate with the tooling venv's jsonschema when available
    try:
        r = subprocess.run(
            ["python3-vt", os.path.join(VERIF, "tools", "validate_evidence.py"), path],
            capture_output=True, text=True, timeout=60,
        )
        if r.returncode != 0:
            print("INFRA: evidence does not validate:", r.stdout, r.stderr)
            return False
    except FileNotFoundError:
        pass
    return True


def run(modname, tier, seed, workers=None):
    bind_repo()
    import importlib

    mod = importlib.import_module(modname)
    t0 = time.time()
    shards = mod.plan(tier, seed)
    workers = workers or int(os.environ.get("VERIF_WORKERS", "0")) or min(16, os.cpu_count() or 4)
    agg = new_result()
    errors = []
    jobs = [(modname, s, tier, seed) for s in shards]
    if workers == 1 or len(jobs) == 1:
        results = map(_worker, jobs)
    else:
        pool = mp.get_context("fork").Pool(min(workers, len(jobs)))
        results = pool.imap_unordered(_worker, jobs, chunksize=1)
    for st, r in results:
        if st == "ok":
            merge(agg, r)
        else:
            errors.append(r)
    if workers != 1 and len(jobs) != 1:
        pool.close()
        pool.join()
    if hasattr(mod, "finish"):
        try:
            mod.finish(agg, tier, seed)
        except BaseException:
            errors.append("finish: " + traceback.format_exc())
    wall = time.time() - t0
    agg["violations"].sort(key=lambda v: (v["sig"], json.dumps(v["case"], sort_keys=True, default=repr)))
    nviol = report(mod.PROPERTY, agg["violations"], agg["viol_count"])
    ok_ev = write_evidence(mod, tier, seed, agg, wall, nviol, exhaustive=not errors)
    print(
        f"{mod.PROPERTY} tier={tier} seed={seed} shards={len(shards)} evaluations={agg['evaluations']} "
        f"distinct_nontrivial={len(agg['nontrivial'])} outcomes={len(agg['outcomes'])} "
        + " ".join(f"{k}={v}" for k, v in sorted(agg["extra"].items()))
        + " " + " ".join(f"{k}={len(v)}" for k, v in sorted(agg["sets"].items()))
        + f" wall={wall:.1f}s unlisted_violations={nviol}"
    )
    if errors:
        print(f"INFRA: {len(errors)} shard(s) crashed; first:\n{errors[0]}")
        return 2
    if nviol:
        return 1
    if not ok_ev:
        return 2
    if len(agg["outcomes"]) < getattr(mod, "MIN_OUTCOMES", 2):
        print(f"INFRA: vacuous exploration, only {len(agg['outcomes'])} distinct outcome(s)")
        return 2
    return 0


def run_replay(modname, path):
    bind_repo()
    import importlib

    mod = importlib.import_module(modname)
    rec = json.load(open(path))
    a = mod.replay(rec["case"])
    b = mod.replay(rec["case"])
    sa = sorted(v["sig"] for v in a)
    if sa != sorted(v["sig"] for v in b):
        print("INFRA: replay is not deterministic", sa)
        return 2
    if not a:
        print(f"replay: case passes on this tree ({path})")
        return 0
    known = load_known(mod.PROPERTY)
    rc = 0
    for v in a:
        if v["sig"] in known:
            print(f"KNOWN-FINDING: property={mod.PROPERTY} {known[v['sig']]['id']}: {known[v['sig']]['what']}")
        else:
            print(f"VIOLATION property={mod.PROPERTY} replay={path}")
            print(f"  signature: {v['sig']}\n  expected: {v['expected']!r}\n  observed: {v['observed']!r}\n  detail: {v.get('detail')}")
            rc = 1
    return rc
