"""Formulas over canonical atoms, truth-table equivalence (E3/E4 shared)."""
import itertools

from mc import refsigma as R

MAX_ATOMS = 14


class TooManyAtoms(Exception):
    pass


# ---- constructors -------------------------------------------------------------------------------
def atom(key):
    return ("atom", key)


def NOT(f):
    return ("not", f)


def AND(fs):
    fs = tuple(fs)
    return fs[0] if len(fs) == 1 else ("and", fs)


def OR(fs):
    fs = tuple(fs)
    return fs[0] if len(fs) == 1 else ("or", fs)


def canon_parts(parts):
    """collapse runs of multi-character wildcards (same glob)"""
    out = []
    for p in R.norm(parts):
        if p == R.MULTI and out and out[-1] == R.MULTI:
            continue
        out.append(p)
    return tuple(out)


def a_str(field, cased, parts):
    return atom((field, "str", bool(cased), canon_parts(parts)))


def a_num(field, n):
    return atom((field, "num", float(n)))


def a_bool(field, b):
    return atom((field, "bool", bool(b)))


def a_null(field):
    return atom((field, "null"))


def a_exists(field):
    return atom((field, "exists"))


def a_re(field, text, flags):
    return atom((field, "re", text, tuple(sorted(flags))))


def a_cidr(field, net):
    return atom((field, "cidr", net))


def a_cmp(field, op, n):
    return atom((field, "cmp", op, float(n)))


def a_fieldref(field, other, sw, ew):
    return atom((field, "fieldref", other, bool(sw), bool(ew)))


def a_ts(field, part, op, n):
    return atom((field, "tspart", part, op, float(n)))


def a_query(field, expr):
    return atom((field, "query", expr))


def a_ref(ruleid):
    return atom((None, "ruleref", ruleid))


# ---- evaluation ---------------------------------------------------------------------------------
def atoms(f, out=None):
    if out is None:
        out = set()
    k = f[0]
    if k == "atom":
        out.add(f[1])
    elif k == "not":
        atoms(f[1], out)
    elif k in ("and", "or"):
        for x in f[1]:
            atoms(x, out)
    return out


def evaluate(f, env):
    k = f[0]
    if k == "atom":
        return env[f[1]]
    if k == "not":
        return not evaluate(f[1], env)
    if k == "and":
        return all(evaluate(x, env) for x in f[1])
    if k == "or":
        return any(evaluate(x, env) for x in f[1])
    if k == "const":
        return f[1]
    raise ValueError(k)


def equivalent(f, g):
    """(True, None) or (False, counterexample) by exhaustive truth table over the union of atoms"""
    al = sorted(atoms(f) | atoms(g), key=repr)
    if len(al) > MAX_ATOMS:
        raise TooManyAtoms(len(al))
    for bits in itertools.product((False, True), repeat=len(al)):
        env = dict(zip(al, bits))
        if evaluate(f, env) != evaluate(g, env):
            return False, {"atoms_true": [repr(a) for a, b in env.items() if b], "ref": evaluate(f, env), "got": evaluate(g, env)}
    return True, None


def show(f):
    k = f[0]
    if k == "atom":
        a = f[1]
        return f"{a[0]}:{a[1]}{list(a[2:])}"
    if k == "not":
        return "NOT(" + show(f[1]) + ")"
    if k == "const":
        return str(f[1])
    return k.upper() + "(" + ", ".join(show(x) for x in f[1]) + ")"


def size(f):
    k = f[0]
    if k in ("atom", "const"):
        return 1
    if k == "not":
        return 1 + size(f[1])
    return 1 + sum(size(x) for x in f[1])
