"""E4a - configurable verification backend: a fresh TextQueryBackend subclass per configuration K.

The target syntax is unambiguous by construction: quoted fields (backtick) and strings (double quote) with
backslash escaping, keyword operators in upper case, bracketed lists, /regex/flags, <...> payloads."""
import re

K0 = {
    "precedence": ("NOT", "AND", "OR"),
    "parenthesize": False,
    "tokens": "words",  # words | symbols | implicit_and
    "not_eq": False,  # convert_not_as_not_eq with negated templates
    "or_in": False,
    "and_in": False,
    "in_wild": False,
    # optional templates that are present
    "templates": frozenset({"sw", "ew", "ct", "wm", "cs", "cssw", "csew", "csct", "notexists", "cidr"}),
    "allow_special": False,
    "field_quote": "always",  # always | pattern
    "str_quote": "always",  # always | pattern
    "re_flag_prefix": False,
    "correlation": False,
    "state_expr": False,  # query_expression exposes pipeline state: IDX<{state[index]}> {query}
}
ALL_TEMPLATES = ["sw", "ew", "ct", "wm", "cs", "cssw", "csew", "csct", "notexists", "cidr"]


def K(**kw):
    k = dict(K0)
    for a, b in kw.items():
        if a not in k:
            raise KeyError(a)
        k[a] = b
    k["templates"] = frozenset(k["templates"])
    k["precedence"] = tuple(k["precedence"])
    return k


def kkey(k):
    def fz(b):
        if isinstance(b, frozenset):
            return tuple(sorted(b))
        if isinstance(b, dict):
            return tuple(sorted(b.items()))
        return b

    return tuple(sorted((a, fz(b)) for a, b in k.items()))


_CACHE = {}
_SEQ = [0]


def make_backend_class(k, fresh=False):
    """TextQueryBackend subclass for configuration k (cached unless fresh=True)"""
    key = kkey(k)
    if not fresh and key in _CACHE:
        return _CACHE[key]
    from sigma.conditions import ConditionAND, ConditionNOT, ConditionOR
    from sigma.conversion.base import TextQueryBackend
    from sigma.types import CompareOperators, SigmaRegularExpressionFlag, TimestampPart

    cls_of = {"NOT": ConditionNOT, "AND": ConditionAND, "OR": ConditionOR}
    t = k["templates"]
    sp = k["allow_special"]
    a = dict(
        name="verification backend",
        precedence=tuple(cls_of[x] for x in k["precedence"]),
        parenthesize=k["parenthesize"],
        group_expression="({expr})",
        eq_token="=",
        not_eq_token="!=",
        field_quote="`",
        field_escape="\\",
        field_escape_quote=True,
        field_escape_pattern=re.compile(r"\\"),
        str_quote='"',
        escape_char="\\",
        wildcard_multi="*",
        wildcard_single="?",
        add_escaped="\\",
        filter_chars="",
        bool_values={True: "TRUE", False: "FALSE"},
        re_expression="{field} RE /{regex}/{flag_i}{flag_m}{flag_s}",
        re_escape_char="\\",
        re_escape=["/"],
        re_escape_escape_char=True,
        re_flag_prefix=k["re_flag_prefix"],
        re_flags={SigmaRegularExpressionFlag.IGNORECASE: "i", SigmaRegularExpressionFlag.MULTILINE: "m", SigmaRegularExpressionFlag.DOTALL: "s"},
        compare_op_expression="{field}{operator}{value}",
        compare_operators={CompareOperators.LT: "<", CompareOperators.LTE: "<=", CompareOperators.GT: ">", CompareOperators.GTE: ">=", CompareOperators.NEQ: "<>"},
        field_equals_field_expression="{field1} FEQ {field2}",
        field_equals_field_startswith_expression="{field1} FSW {field2}",
        field_equals_field_endswith_expression="{field1} FEW {field2}",
        field_equals_field_contains_expression="{field1} FCT {field2}",
        field_timestamp_part_expression="TS({field},{timestamp_part})",
        timestamp_part_mapping={TimestampPart.MINUTE: "MINUTE", TimestampPart.HOUR: "HOUR", TimestampPart.DAY: "DAY", TimestampPart.WEEK: "WEEK", TimestampPart.MONTH: "MONTH", TimestampPart.YEAR: "YEAR"},
        field_null_expression="{field} ISNULL",
        field_exists_expression="EXISTS {field}",
        field_in_list_expression="{field} {op} [{list}]",
        or_in_operator="IN",
        and_in_operator="ALLOF",
        list_separator=", ",
        unbound_value_str_expression="KW {value}",
        unbound_value_num_expression="KWN {value}",
        unbound_value_re_expression="KWRE /{value}/{flag_i}{flag_m}{flag_s}",
        convert_or_as_in=k["or_in"],
        convert_and_as_in=k["and_in"],
        in_expressions_allow_wildcards=k["in_wild"],
        convert_not_as_not_eq=k["not_eq"],
        not_re_expression="{field} NRE /{regex}/{flag_i}{flag_m}{flag_s}",
    )
    if k["tokens"] == "words":
        a.update(or_token="OR", and_token="AND", not_token="NOT", token_separator=" ")
    elif k["tokens"] == "symbols":
        a.update(or_token="|", and_token="&", not_token="!", token_separator="")
    elif k["tokens"] == "implicit_and":
        a.update(or_token="OR", and_token=" ", not_token="NOT", token_separator=" ")
    else:
        raise ValueError(k["tokens"])
    if k["field_quote"] == "pattern":
        a.update(field_quote_pattern=re.compile(r"^\w+$"), field_quote_pattern_negation=True)
    if k["str_quote"] == "pattern":
        a.update(str_quote_pattern=re.compile(r"^\w+$"), str_quote_pattern_negation=True)
    if "sw" in t:
        a.update(startswith_expression="{field} SW {value}", not_startswith_expression="{field} NSW {value}", startswith_expression_allow_special=sp)
    if "ew" in t:
        a.update(endswith_expression="{field} EW {value}", not_endswith_expression="{field} NEW {value}", endswith_expression_allow_special=sp)
    if "ct" in t:
        a.update(contains_expression="{field} CT {value}", not_contains_expression="{field} NCT {value}", contains_expression_allow_special=sp)
    if "wm" in t:
        a.update(wildcard_match_expression="{field} WM {value}")
    if "cs" in t:
        a.update(case_sensitive_match_expression="{field} CSEQ {value}")
    if "cssw" in t:
        a.update(case_sensitive_startswith_expression="{field} CSSW {value}", case_sensitive_not_startswith_expression="{field} NCSSW {value}", case_sensitive_startswith_expression_allow_special=sp)
    if "csew" in t:
        a.update(case_sensitive_endswith_expression="{field} CSEW {value}", case_sensitive_not_endswith_expression="{field} NCSEW {value}", case_sensitive_endswith_expression_allow_special=sp)
    if "csct" in t:
        a.update(case_sensitive_contains_expression="{field} CSCT {value}", case_sensitive_not_contains_expression="{field} NCSCT {value}", case_sensitive_contains_expression_allow_special=sp)
    if "notexists" in t:
        a.update(field_not_exists_expression="NOTEXISTS {field}")
    if "cidr" in t:
        a.update(cidr_expression="{field} CIDR <{value}|{network}|{prefixlen}|{netmask}>", not_cidr_expression="{field} NCIDR <{value}|{network}|{prefixlen}|{netmask}>")
    if k.get("state_expr"):
        a.update(query_expression="IDX<{state[index]}> {query}", state_defaults={"index": "default"})
    if k.get("correlation"):
        from mc import vcorr

        a.update(vcorr.templates(k))
    _SEQ[0] += 1
    cls = type(f"VBackend{_SEQ[0]}", (TextQueryBackend,), a)
    cls._verif_initial = {n: v for n, v in a.items()}
    if not fresh:
        _CACHE[key] = cls
    return cls


def class_attrs_intact(cls):
    """C15-style guard: class attributes equal their initial values"""
    bad = [n for n, v in cls._verif_initial.items() if getattr(cls, n) != v]
    return bad
