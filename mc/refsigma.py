"""Reference model of the Sigma specification - strings part. Imports nothing from sigma.

A parsed Sigma string is a tuple of parts: str = literal run, MULTI / SINGLE = wildcards,
("P", name) = placeholder."""
MULTI = 1
SINGLE = 2
SPECIAL = {"*": MULTI, "?": SINGLE}
SPECIAL_CH = {MULTI: "*", SINGLE: "?"}


def norm(parts):
    out = []
    for p in parts:
        if isinstance(p, str):
            if p == "":
                continue
            if out and isinstance(out[-1], str):
                out[-1] += p
                continue
        out.append(p)
    return tuple(out)


def parse_sigma_string(s):
    """backslash escapes '*', '?' and backslash; any other backslash (and a trailing one) is literal"""
    out, acc, i, n = [], [], 0, len(s)
    while i < n:
        c = s[i]
        if c == "\\":
            if i + 1 < n and s[i + 1] in "*?\\":
                acc.append(s[i + 1])
                i += 2
                continue
            acc.append("\\")
        elif c in SPECIAL:
            out.append("".join(acc))
            acc = []
            out.append(SPECIAL[c])
        else:
            acc.append(c)
        i += 1
    out.append("".join(acc))
    return norm(out)


def plain_of(parts):
    """canonical source spelling: a string that parse_sigma_string maps back to `parts`"""
    chars = []  # (char, is_literal)
    for p in parts:
        if isinstance(p, str):
            chars.extend((c, True) for c in p)
        elif p in SPECIAL_CH:
            chars.append((SPECIAL_CH[p], False))
        else:
            chars.extend((c, None) for c in "%" + p[1] + "%")
    out = []
    for k, (c, lit) in enumerate(chars):
        if lit and c in "*?":
            out.append("\\" + c)
        elif lit and c == "\\":
            nxt = chars[k + 1][0] if k + 1 < len(chars) else None
            out.append("\\\\" if nxt in ("*", "?", "\\") else "\\")
        else:
            out.append(c)
    return "".join(out)


def from_sigma(ss):
    """project a real SigmaString onto the model representation"""
    from sigma.types import Placeholder, SpecialChars

    out = []
    for p in ss.s:
        if isinstance(p, str):
            out.append(p)
        elif p == SpecialChars.WILDCARD_MULTI:
            out.append(MULTI)
        elif p == SpecialChars.WILDCARD_SINGLE:
            out.append(SINGLE)
        elif isinstance(p, Placeholder):
            out.append(("P", p.name))
        else:
            out.append(("?", repr(p)))
    return tuple(out)  # deliberately not normalised: callers decide


def glob_match(parts, subject, ci=False):
    """does the wildcard pattern match the whole subject? (hand-written DP, independent of `re`)"""
    pat = []
    for p in parts:
        if isinstance(p, str):
            pat.extend(p)
        else:
            pat.append(p)
    if ci:
        pat = [c.lower() if isinstance(c, str) else c for c in pat]
        subject = subject.lower()
    n = len(subject)
    cur = [True] + [False] * n  # cur[j]: pattern prefix matches subject[:j]
    for c in pat:
        nxt = [False] * (n + 1)
        if c == MULTI:
            seen = False
            for j in range(n + 1):
                seen = seen or cur[j]
                nxt[j] = seen
        elif c == SINGLE:
            for j in range(n):
                if cur[j]:
                    nxt[j + 1] = True
        else:
            for j in range(n):
                if cur[j] and subject[j] == c:
                    nxt[j + 1] = True
        cur = nxt
    return cur[n]


def flat(parts):
    """character-level list (each literal char separately)"""
    out = []
    for p in parts:
        if isinstance(p, str):
            out.extend(p)
        else:
            out.append(p)
    return out


def slice_parts(parts, i, j):
    return norm(flat(parts)[i:j])


def decode_literal(text, escape, wm, ws, quote, add_escaped, quoted):
    """Decode a target-language string literal with the target's own rules.

    Rules (the most lenient reading, so that every failure is a failure under any stricter reading):
    the escape character followed by an escapable character (wildcard token characters, quote, extra
    escaped characters) denotes that character; followed by anything else it is a literal escape
    character; wildcard tokens denote wildcards; an unescaped quote ends the literal.
    Returns (parts, None) or (None, reason)."""
    escapable = set((wm or "") + (ws or "") + (quote or "") + add_escaped)
    pos, end = 0, len(text)
    if quoted:
        if not (len(text) >= 2 and text.startswith(quote)):
            return None, "not-quoted"
        pos = len(quote)
    out = []
    closed = False
    while pos < end:
        c = text[pos]
        if escape and text.startswith(escape, pos):
            nx = text[pos + len(escape) : pos + len(escape) + 1]
            if nx != "" and nx in escapable:
                out.append(nx)
                pos += len(escape) + 1
                continue
            out.append(escape)
            pos += len(escape)
            continue
        if quoted and text.startswith(quote, pos):
            if pos + len(quote) != end:
                return None, "quote-terminates-literal-early"
            closed = True
            pos += len(quote)
            continue
        if wm and text.startswith(wm, pos):
            out.append(MULTI)
            pos += len(wm)
            continue
        if ws and text.startswith(ws, pos):
            out.append(SINGLE)
            pos += len(ws)
            continue
        out.append(c)
        pos += 1
    if quoted and not closed:
        return None, "unterminated-literal"
    return norm(out), None
