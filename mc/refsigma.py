"""Reference model of the Sigma specification - strings part. Imports nothing from sigma.

A parsed Sigma string is a tuple of parts: str = literal run, MULTI / SINGLE = wildcards,
("P", name) = placeholder."""
MULTI = 1
SINGLE = 2
SPECIAL = {"*": MULTI, "?": SINGLE}
SPECIAL_CH = {MULTI: "*", SINGLE: "?"}


def norm(parts):
    out = []
    for p in parts:
        if isinstance(p, str):
            if p == "":
                continue
            if out and isinstance(out[-1], str):
                out[-1] += p
                continue
        out.append(p)
    return tuple(out)


def parse_sigma_string(s):
    """backslash escapes '*', '?' and backslash; any other backslash (and a trailing one) is literal"""
    out, acc, i, n = [], [], 0, len(s)
    while i < n:
        c = s[i]
        if c == "\\":
            if i + 1 < n and s[i + 1] in "*?\\":
                acc.append(s[i + 1])
                i += 2
                continue
            acc.append("\\")
        elif c in SPECIAL:
            out.append("".join(acc))
            acc = []
            out.append(SPECIAL[c])
        else:
            acc.append(c)
        i += 1
    out.append("".join(acc))
    return norm(out)


def plain_of(parts):
    """canonical source spelling: a string that parse_sigma_string maps back to `parts`"""
    chars = []  # (char, is_literal)
    for p in parts:
        if isinstance(p, str):
            chars.extend((c, True) for c in p)
        elif p in SPECIAL_CH:
            chars.append((SPECIAL_CH[p], False))
        else:
            chars.extend((c, None) for c in "%" + p[1] + "%")
    out = []
    for k, (c, lit) in enumerate(chars):
        if lit and c in "*?":
            out.append("\\" + c)
        elif lit and c == "\\":
            nxt = chars[k + 1][0] if k + 1 < len(chars) else None
            out.append("\\\\" if nxt in ("*", "?", "\\") else "\\")
        else:
            out.append(c)
    return "".join(out)


def from_sigma(ss):
    """project a real SigmaString onto the model representation"""
    from sigma.types import Placeholder, SpecialChars

    out = []
    for p in ss.s:
        if isinstance(p, str):
            out.append(p)
        elif p == SpecialChars.WILDCARD_MULTI:
            out.append(MULTI)
        elif p == SpecialChars.WILDCARD_SINGLE:
            out.append(SINGLE)
        elif isinstance(p, Placeholder):
            out.append(("P", p.name))
        else:
            out.append(("?", repr(p)))
    return tuple(out)  # deliberately not normalised: callers decide


def glob_match(parts, subject, ci=False):
    """does the wildcard pattern match the whole subject? (hand-written DP, independent of `re`)"""
    pat = []
    for p in parts:
        if isinstance(p, str):
            pat.extend(p)
        else:
            pat.append(p)
    if ci:
        pat = [c.lower() if isinstance(c, str) else c for c in pat]
        subject = subject.lower()
    n = len(subject)
    cur = [True] + [False] * n  # cur[j]: pattern prefix matches subject[:j]
    for c in pat:
        nxt = [False] * (n + 1)
        if c == MULTI:
            seen = False
            for j in range(n + 1):
                seen = seen or cur[j]
                nxt[j] = seen
        elif c == SINGLE:
            for j in range(n):
                if cur[j]:
                    nxt[j + 1] = True
        else:
            for j in range(n):
                if cur[j] and subject[j] == c:
                    nxt[j + 1] = True
        cur = nxt
    return cur[n]


def flat(parts):
    """character-level list (each literal char separately)"""
    out = []
    for p in parts:
        if isinstance(p, str):
            out.extend(p)
        else:
            out.append(p)
    return out


def slice_parts(parts, i, j):
    return norm(flat(parts)[i:j])


def decode_literal(text, escape, wm, ws, quote, add_escaped, quoted):
    """Decode a target-language string literal with the target's own rules.

    Rules (the most lenient reading, so that every failure is a failure under any stricter reading):
    the escape character followed by an escapable character (wildcard token characters, quote, extra
    escaped characters) denotes that character; followed by anything else it is a literal escape
    character; wildcard tokens denote wildcards; an unescaped quote ends the literal.
    Returns (parts, None) or (None, reason)."""
    escapable = set((wm or "") + (ws or "") + (quote or "") + add_escaped)
    pos, end = 0, len(text)
    if quoted:
        if not (len(text) >= 2 and text.startswith(quote)):
            return None, "not-quoted"
        pos = len(quote)
    out = []
    closed = False
    while pos < end:
        c = text[pos]
        if escape and text.startswith(escape, pos):
            nx = text[pos + len(escape) : pos + len(escape) + 1]
            if nx != "" and nx in escapable:
                out.append(nx)
                pos += len(escape) + 1
                continue
            out.append(escape)
            pos += len(escape)
            continue
        if quoted and text.startswith(quote, pos):
            if pos + len(quote) != end:
                return None, "quote-terminates-literal-early"
            closed = True
            pos += len(quote)
            continue
        if not quoted and quote and text.startswith(quote, pos):
            return None, "bare-quote-character-in-unquoted-literal"  # it would open a quoted literal in the target language
        if wm and text.startswith(wm, pos):
            out.append(MULTI)
            pos += len(wm)
            continue
        if ws and text.startswith(ws, pos):
            out.append(SINGLE)
            pos += len(ws)
            continue
        out.append(c)
        pos += 1
    if quoted and not closed:
        return None, "unterminated-literal"
    return norm(out), None


# =================================================================================================
# Part 2: value modifiers (model values) --------------------------------------------------------
import base64 as _b64
import ipaddress as _ip
import re as _re


class Reject(Exception):
    """the specification says this chain/value combination must be rejected with a Sigma error"""


class Unspecified(Exception):
    """the property statement / documentation does not define the outcome"""


# model values are tuples: ("str", cased, parts) ("num", n) ("bool", b) ("null",) ("re", text, flags)
# ("cidr", text) ("cmp", op, value) ("fieldref", name, sw, ew) ("exists", b) ("tspart", part, n) ("exp", (values...))

TS_PARTS = {"minute": "MINUTE", "hour": "HOUR", "day": "DAY", "week": "WEEK", "month": "MONTH", "year": "YEAR"}
CMP_OPS = {"lt": "LT", "lte": "LTE", "gt": "GT", "gte": "GTE"}
RE_FLAGS = {"i": "IGNORECASE", "ignorecase": "IGNORECASE", "m": "MULTILINE", "multiline": "MULTILINE", "s": "DOTALL", "dotall": "DOTALL"}
DASHES = ("-", "/", "–", "—", "―")
ALL_MODIFIERS = ["all", "neq", "base64", "base64offset", "cased", "cidr", "contains", "day", "dotall", "endswith", "exists",
                 "expand", "fieldref", "gt", "gte", "hour", "i", "ignorecase", "lt", "lte", "m", "minute", "month",
                 "multiline", "re", "utf16", "utf16be", "s", "startswith", "week", "wide", "windash", "year"]


def model_value(v):
    """plain YAML value -> model value"""
    if isinstance(v, bool):
        return ("bool", v)
    if isinstance(v, (int, float)):
        return ("num", int(v) if float(v) == int(v) else float(v))
    if v is None:
        return ("null",)
    if isinstance(v, str):
        return ("str", False, parse_sigma_string(v))
    raise Unspecified(f"value type {type(v).__name__}")


def _literal(parts):
    return "".join(p for p in parts if isinstance(p, str))


def _has_wild(parts):
    return any(p in (MULTI, SINGLE) for p in parts)


def _has_ph(parts):
    return any(isinstance(p, tuple) for p in parts)


def _smuggle(text, codec):
    """UTF-16 bytes represented as a str whose UTF-8 encoding is those bytes (the representation the library uses)"""
    try:
        return text.encode(codec).decode("utf-8")
    except UnicodeDecodeError:
        raise Reject("not representable")


def b64offset_values(data):
    out = []
    for i in range(3):
        enc = _b64.b64encode(b" " * i + data).decode()
        start = (0, 2, 3)[i]
        r = (len(data) + i) % 3
        end = {0: None, 1: -3, 2: -2}[r]
        out.append(enc[start:end])
    return out


def windash_variants(parts):
    """cross product over all parameter-position dashes (first position most significant)"""
    slots = []  # list of lists of alternative part-tuples
    for p in parts:
        if not isinstance(p, str):
            slots.append([(p,)])
            continue
        pos = 0
        for m in _re.finditer(r"\B[-/]\b", p):
            if m.start() > pos:
                slots.append([(p[pos : m.start()],)])
            slots.append([(d,) for d in DASHES])
            pos = m.end()
        if pos < len(p):
            slots.append([(p[pos:],)])
    import itertools

    res = []
    for combo in itertools.product(*slots) if slots else [()]:
        res.append(norm([x for c in combo for x in c]))
    return res


def expand_placeholders(parts):
    out = []
    for p in parts:
        if not isinstance(p, str):
            out.append(p)
            continue
        if "%%" in p:
            raise Unspecified("adjacent percent signs")
        # tokens: escaped percent, percent, other chars
        toks = _re.findall(r"\\%|%|[^%\\]+|\\", p)
        i, acc = 0, []
        while i < len(toks):
            t = toks[i]
            if t == "\\%":
                acc.append("%")
                i += 1
            elif t == "%":
                # find the closing unescaped percent
                j = i + 1
                name = []
                while j < len(toks) and toks[j] != "%":
                    if toks[j] == "\\%":
                        raise Unspecified("escaped percent inside a placeholder candidate")
                    name.append(toks[j])
                    j += 1
                if j >= len(toks):
                    # single unmatched percent: stays literal
                    acc.append("%")
                    i += 1
                    continue
                nm = "".join(name)
                if nm == "":
                    raise Unspecified("empty placeholder name")
                if nm.endswith("\\"):
                    raise Unspecified("backslash before the closing percent")
                out.append("".join(acc))
                acc = []
                out.append(("P", nm))
                i = j + 1
            else:
                acc.append(t)
                i += 1
        out.append("".join(acc))
    return norm(out)


def _valid_regex(text, flags=()):
    try:
        f = 0
        for x in flags:
            f |= {"IGNORECASE": _re.I, "MULTILINE": _re.M, "DOTALL": _re.S}[x]
        _re.compile(text, f)
        return True
    except _re.error:
        return False


def apply_value_modifier(mod, v, applied, has_field, raw):
    """one value modifier on one model value. raw = original plain value (needed by re)."""
    k = v[0]
    if k == "exp":
        return ("exp", tuple(apply_value_modifier(mod, x, applied, has_field, raw) for x in v[1]))
    if mod in ("contains", "startswith", "endswith"):
        front = mod in ("contains", "endswith")
        back = mod in ("contains", "startswith")
        if k == "str":
            parts = list(v[2])
            if front and not (parts and parts[0] == MULTI):
                parts.insert(0, MULTI)
            if back and not (parts and parts[-1] == MULTI):
                parts.append(MULTI)
            return ("str", v[1], norm(parts))
        if k == "re":
            t = v[1]
            if t == "":
                raise Unspecified("empty regular expression")
            if _has_ph_text(t):
                raise Unspecified("regex with placeholders")
            if front and not (t.startswith(".*") or t.startswith("^")):
                t = ".*" + t
            if back and not (v[1].endswith(".*") or v[1].endswith("$")):
                t = t + ".*"
            if not _valid_regex(t, v[2]):
                raise Reject("invalid regex")
            return ("re", t, v[2])
        if k == "fieldref":
            return ("fieldref", v[1], v[2] or back, v[3] or front)
        raise Reject(mod + " on " + k)
    if mod in ("base64", "base64offset", "wide", "utf16", "utf16be"):
        if k != "str":
            raise Reject(mod + " on " + k)
        if v[1]:
            raise Unspecified("encoding of a cased string")
        if _has_ph(v[2]):
            raise Unspecified("encoding of placeholders")
        if mod in ("base64", "base64offset"):
            if _has_wild(v[2]):
                raise Reject("wildcards")
            data = _literal(v[2]).encode("utf-8")
            if mod == "base64":
                return ("str", False, norm([_b64.b64encode(data).decode()]))
            return ("exp", tuple(("str", False, norm([t])) for t in b64offset_values(data)))
        codec = {"wide": "utf-16-le", "utf16": "utf-16-le", "utf16be": "utf-16-be"}[mod]
        parts = [(_smuggle(p, codec) if isinstance(p, str) else p) for p in v[2]]
        if mod == "utf16":
            parts.insert(0, "﻿")
        return ("str", False, norm(parts))
    if mod == "windash":
        if k != "str":
            raise Reject("windash on " + k)
        if _has_ph(v[2]):
            raise Unspecified("windash with placeholders")
        return ("exp", tuple(("str", v[1], p) for p in windash_variants(v[2])))
    if mod == "re":
        if k != "str" or v[1]:
            raise Reject("re on " + k)
        if applied:
            raise Reject("re only on unmodified values")
        if not isinstance(raw, str):
            raise Reject("re on non-string")
        if not _valid_regex(raw):
            raise Reject("invalid regex")
        return ("re", raw, ())
    if mod in RE_FLAGS:
        if k != "re":
            raise Reject("flag on " + k)
        fl = tuple(sorted(set(v[2]) | {RE_FLAGS[mod]}))
        return ("re", v[1], fl)
    if mod == "cased":
        if k != "str":
            raise Reject("cased on " + k)
        if v[1]:
            raise Unspecified("cased twice")
        return ("str", True, v[2])
    if mod == "cidr":
        if k != "str" or v[1]:
            raise Reject("cidr on " + k)
        if [m for m in applied if m not in ("all", "neq")]:
            raise Reject("cidr only on unmodified values")
        if applied:
            raise Unspecified("list modifier before cidr")
        text = plain_of(v[2])
        try:
            _ip.ip_network(text)
        except ValueError:
            raise Reject("invalid cidr")
        return ("cidr", text)
    if mod == "fieldref":
        if k != "str":
            raise Reject("fieldref on " + k)
        if _has_wild(v[2]):
            raise Reject("wildcards")
        lit = _literal(v[2])
        if v[1] or _has_ph(v[2]) or any(c in lit for c in "*?\\"):
            raise Unspecified("fieldref of escaped/cased value")
        return ("fieldref", lit, False, False)
    if mod == "exists":
        if k != "bool":
            raise Reject("exists on " + k)
        if not has_field:
            raise Reject("exists without field")
        if [m for m in applied if m not in ("all", "neq")]:
            raise Reject("exists only on unmodified values")
        if applied:
            raise Unspecified("list modifier before exists")
        return ("exists", v[1])
    if mod == "expand":
        if k == "str":
            return ("str", v[1], expand_placeholders(v[2]))
        if k == "re":
            raise Unspecified("expand on regex (see C17)")
        raise Reject("expand on " + k)
    if mod in CMP_OPS:
        if k == "num" or k == "tspart":
            return ("cmp", CMP_OPS[mod], v)
        raise Reject(mod + " on " + k)
    if mod in TS_PARTS:
        if k == "num":
            if v[1] != int(v[1]):
                raise Unspecified("timestamp part of a non-integer")
            return ("tspart", TS_PARTS[mod], int(v[1]))
        if k == "tspart":
            raise Unspecified("timestamp part twice")
        raise Reject(mod + " on " + k)
    raise Unspecified("unknown modifier " + mod)


def _has_ph_text(t):
    return False


def apply_chain(raw_values, chain, has_field=True):
    """returns (values, linking 'or'|'and', negated) ; raises Reject / Unspecified"""
    for m in chain:
        if m not in ALL_MODIFIERS:
            raise Reject("unknown modifier")
    if not raw_values:  # no values: value modifiers have nothing to act on
        return [], ("and" if "all" in chain else "or"), ("neq" in chain)
    if "re" in chain:
        # the library keeps the raw, unparsed text of every value when 're' occurs anywhere in the chain
        p = chain.index("re")
        before = [m for m in chain[:p] if m not in ("all", "neq")]
        if before:
            raise Reject("re only on unmodified values")
        if p > 0:
            raise Unspecified("list modifier before re")
        for r in raw_values:
            if not isinstance(r, str):
                raise Reject("re on non-string")
        vals = [("str", False, norm([r])) for r in raw_values]
    else:
        vals = [model_value(r) for r in raw_values]
    raws = list(raw_values)
    linking, negated = "or", False
    applied = []
    for m in chain:
        if m == "all":
            linking = "and"
        elif m == "neq":
            negated = True
        else:
            vals = [apply_value_modifier(m, v, applied, has_field, r) for v, r in zip(vals, raws)]
        applied.append(m)
    return vals, linking, negated


def flatten_exp(v):
    if v[0] != "exp":
        return v
    out = []
    for x in v[1]:
        x = flatten_exp(x)
        if x[0] == "exp":
            out.extend(x[1])
        else:
            out.append(x)
    return ("exp", tuple(out))


def project_value(v):
    """real SigmaType -> model value"""
    from sigma import types as st

    if isinstance(v, st.SigmaExpansion):
        return flatten_exp(("exp", tuple(project_value(x) for x in v.values)))
    if isinstance(v, st.SigmaCasedString):
        return ("str", True, norm(from_sigma(v)))
    if isinstance(v, st.SigmaString):
        return ("str", False, norm(from_sigma(v)))
    if isinstance(v, st.SigmaTimestampPart):
        return ("tspart", v.timestamp_part.name, v.number)
    if isinstance(v, st.SigmaNumber):
        return ("num", v.number)
    if isinstance(v, st.SigmaBool):
        return ("bool", v.boolean)
    if isinstance(v, st.SigmaNull):
        return ("null",)
    if isinstance(v, st.SigmaRegularExpression):
        parts = from_sigma(v.regexp)
        text = "".join(p if isinstance(p, str) else SPECIAL_CH.get(p, "%" + p[1] + "%" if isinstance(p, tuple) else "?") for p in parts)
        return ("re", text, tuple(sorted(f.name for f in v.flags)))
    if isinstance(v, st.SigmaCIDRExpression):
        return ("cidr", v.cidr)
    if isinstance(v, st.SigmaCompareExpression):
        return ("cmp", v.op.name, project_value(v.number))
    if isinstance(v, st.SigmaFieldReference):
        return ("fieldref", v.field, bool(v.starts_with), bool(v.ends_with))
    if isinstance(v, st.SigmaExists):
        return ("exists", bool(v.exists))
    if isinstance(v, st.SigmaQueryExpression):
        return ("query", v.expr, v.id)
    return ("?", repr(v))
