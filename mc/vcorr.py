"""Correlation templates of the verification backend (delimiter-structured) and their decoder."""
import re

TYPES = ["event_count", "value_count", "temporal", "temporal_ordered", "temporal_extended", "temporal_ordered_extended",
         "value_sum", "value_avg", "value_percentile", "value_median"]
L, Rr, SEP, JOIN = "⟦", "⟧", "¦", "‖"


def templates(k):
    a = dict(
        correlation_methods={"default": "Default method"},
        default_correlation_query={"default": "SEARCH" + L + "{search}" + Rr + "TYPING" + L + "{typing}" + Rr + "AGG" + L + "{aggregate}" + Rr + "COND" + L + "{condition}" + Rr},
        correlation_search_multi_rule_expression="{queries}",
        correlation_search_multi_rule_query_expression="Q" + L + "{ruleid}" + SEP + "{query}" + SEP + "{normalization}" + Rr,
        correlation_search_multi_rule_query_expression_joiner=JOIN,
        correlation_search_field_normalization_expression="{alias}={field}",
        correlation_search_field_normalization_expression_joiner=",",
        groupby_expression={"default": "G" + L + "{fields}" + Rr},
        groupby_field_expression={"default": "{field}"},
        groupby_field_expression_joiner={"default": ","},
        groupby_expression_nofield={"default": "G" + L + Rr},
        correlation_fields_expression={"default": "F" + L + "{fields}" + Rr},
        correlation_fields_field_expression={"default": "{field}"},
        correlation_fields_field_expression_joiner={"default": ","},
        referenced_rules_expression={"default": "{ruleid}"},
        referenced_rules_expression_joiner={"default": ","},
        extended_correlation_condition_rule_reference_expression={"default": "REF" + L + "{ruleid}" + Rr},
    )
    corr = k.get("correlation")
    opts = corr if isinstance(corr, dict) else {}
    if opts.get("typing", True):
        a.update(typing_expression="{queries}", typing_rule_query_expression="T" + L + "{ruleid}" + SEP + "{query}" + Rr, typing_rule_query_expression_joiner=JOIN)
    if opts.get("single", False):
        a.update(correlation_search_single_rule_expression="S1" + L + "{query}" + SEP + "{normalization}" + Rr)
    ts = opts.get("timespan", "passthrough")
    if ts == "seconds":
        a.update(timespan_seconds=True)
    elif ts == "mapping":
        a.update(timespan_mapping={"s": "sec", "m": "min", "h": "hrs", "d": "days", "w": "wks", "M": "mon", "y": "yrs"})
    if opts.get("finalize_subqueries", False):
        a.update(finalize_correlation_subqueries=True)
    for t in TYPES:
        a[f"{t}_aggregation_expression"] = {"default": "A" + L + t + SEP + "{timespan}" + SEP + "{field}" + SEP + "{percentile}" + SEP + "{groupby}" + SEP + "{referenced_rules}" + SEP + "{fields}" + Rr}
        if t.endswith("extended"):
            a[f"{t}_condition_expression"] = {"default": "X" + L + "{extended_condition}" + SEP + "{referenced_rules}" + Rr}
        else:
            a[f"{t}_condition_expression"] = {"default": "C" + L + "{op}" + SEP + "{count}" + SEP + "{field}" + SEP + "{referenced_rules}" + Rr}
    return a


class CorrParseError(Exception):
    pass


def _split_top(s, sep):
    """split at separators that are not nested inside brackets"""
    out, depth, cur = [], 0, []
    for ch in s:
        if ch == L:
            depth += 1
        elif ch == Rr:
            depth -= 1
        if ch == sep and depth == 0:
            out.append("".join(cur))
            cur = []
        else:
            cur.append(ch)
    out.append("".join(cur))
    return out


def _unwrap(s, tag):
    if not (s.startswith(tag + L) and s.endswith(Rr)):
        raise CorrParseError(f"expected {tag}[...] but got {s[:60]!r}")
    return s[len(tag) + 1 : -1]


def parse(q):
    """decode one correlation query into a record"""
    parts, pos = [], 0
    for tag in ("SEARCH", "TYPING", "AGG", "COND"):
        if not q.startswith(tag + L, pos):
            raise CorrParseError(f"frame: {tag} expected at {pos}: " + q[pos : pos + 60])
        i = pos + len(tag) + 1
        depth = 1
        while i < len(q) and depth:
            if q[i] == L:
                depth += 1
            elif q[i] == Rr:
                depth -= 1
            i += 1
        if depth:
            raise CorrParseError("frame: unbalanced brackets")
        parts.append(q[pos + len(tag) + 1 : i - 1])
        pos = i
    if pos != len(q):
        raise CorrParseError("frame: trailing text " + q[pos : pos + 40])
    search, typing, agg, cond = parts
    rec = {}
    subs = []
    if search.startswith("S1" + L):
        body = _split_top(_unwrap(search, "S1"), SEP)
        if len(body) != 2:
            raise CorrParseError("single search fields")
        rec["single"] = True
        subs.append((None, body[0], body[1]))
    else:
        for part in _split_top(search, JOIN) if search else []:
            body = _split_top(_unwrap(part, "Q"), SEP)
            if len(body) != 3:
                raise CorrParseError("search fields: " + part[:60])
            subs.append(tuple(body))
    rec["search"] = subs
    rec["typing"] = []
    for part in _split_top(typing, JOIN) if typing else []:
        body = _split_top(_unwrap(part, "T"), SEP)
        if len(body) != 2:
            raise CorrParseError("typing fields")
        rec["typing"].append(tuple(body))
    ab = _split_top(_unwrap(agg, "A"), SEP)
    if len(ab) != 7:
        raise CorrParseError("aggregation fields: " + agg[:80])
    rec.update(type=ab[0], timespan=ab[1], field=ab[2], percentile=ab[3], groupby=ab[4], agg_refs=ab[5], fields=ab[6])
    if cond.startswith("X" + L):
        xb = _split_top(_unwrap(cond, "X"), SEP)
        if len(xb) != 2:
            raise CorrParseError("extended condition fields")
        rec.update(xcond=xb[0], cond_refs=xb[1])
    else:
        cb = _split_top(_unwrap(cond, "C"), SEP)
        if len(cb) != 4:
            raise CorrParseError("condition fields")
        rec.update(op=cb[0], count=cb[1], cond_field=cb[2], cond_refs=cb[3])
    return rec
