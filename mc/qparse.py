"""E4b - decoder of the verification backend's target language -> formula over canonical atoms."""
import re

from mc import formula as F
from mc import refsigma as R


class QParseError(Exception):
    pass


KEYWORDS = {
    "OR", "AND", "NOT", "SW", "EW", "CT", "WM", "NSW", "NEW", "NCT", "CSEQ", "CSSW", "CSEW", "CSCT", "NCSSW", "NCSEW", "NCSCT",
    "RE", "NRE", "CIDR", "NCIDR", "FEQ", "FSW", "FEW", "FCT", "ISNULL", "EXISTS", "NOTEXISTS", "IN", "ALLOF", "KW", "KWN", "KWRE",
    "TRUE", "FALSE", "TS", "QE",
}
STR_OPS = {"SW": (False, "sw", False), "EW": (False, "ew", False), "CT": (False, "ct", False), "WM": (False, "eq", False),
           "NSW": (False, "sw", True), "NEW": (False, "ew", True), "NCT": (False, "ct", True),
           "CSEQ": (True, "eq", False), "CSSW": (True, "sw", False), "CSEW": (True, "ew", False), "CSCT": (True, "ct", False),
           "NCSSW": (True, "sw", True), "NCSEW": (True, "ew", True), "NCSCT": (True, "ct", True)}
CMP = {"<": "LT", "<=": "LTE", ">": "GT", ">=": "GTE", "<>": "NEQ"}
_NUM = re.compile(r"-?\d+(?:\.\d+)?(?:[eE][-+]?\d+)?")
_WORD = re.compile(r"\w+")


def tokenize(q, k):
    """list of (kind, value, pos). kinds: field, str, num, kw, re, payload, sym, word"""
    toks, i, n = [], 0, len(q)
    prev_kind = lambda: toks[-1][0] if toks else None
    while i < n:
        c = q[i]
        if c in " \t":
            i += 1
            continue
        if c == "`":
            j, out = i + 1, []
            while True:
                if j >= n:
                    raise QParseError(f"unterminated field at {i}")
                if q[j] == "\\" and j + 1 < n and q[j + 1] in "`\\":
                    out.append(q[j + 1])
                    j += 2
                    continue
                if q[j] == "`":
                    break
                out.append(q[j])
                j += 1
            toks.append(("field", "".join(out), i))
            i = j + 1
            continue
        if c == '"':
            j = i + 1
            while True:
                if j >= n:
                    raise QParseError(f"unterminated string at {i}")
                if q[j] == "\\" and j + 1 < n and q[j + 1] in '*?"\\':
                    j += 2
                    continue
                if q[j] == '"':
                    break
                j += 1
            parts, why = R.decode_literal(q[i : j + 1], "\\", "*", "?", '"', "\\", True)
            if parts is None:
                raise QParseError(f"bad string literal at {i}: {why}")
            toks.append(("str", parts, i))
            i = j + 1
            continue
        if c == "/" and toks and toks[-1][0] == "kw" and toks[-1][1] in ("RE", "NRE", "KWRE"):
            j, out = i + 1, []
            while True:
                if j >= n:
                    raise QParseError(f"unterminated regex at {i}")
                if q[j] == "\\" and j + 1 < n and q[j + 1] in "/\\":
                    out.append(q[j + 1])
                    j += 2
                    continue
                if q[j] == "/":
                    break
                out.append(q[j])
                j += 1
            j += 1
            fl = []
            while j < n and q[j] in "ims":
                fl.append(q[j])
                j += 1
            toks.append(("re", ("".join(out), tuple(fl)), i))
            i = j
            continue
        if c == "<" and toks and toks[-1][0] == "kw" and toks[-1][1] in ("CIDR", "NCIDR", "QE"):
            j = q.find(">", i)
            if j < 0:
                raise QParseError(f"unterminated payload at {i}")
            toks.append(("payload", q[i + 1 : j], i))
            i = j + 1
            continue
        m = _NUM.match(q, i)
        if m and (c.isdigit() or (c == "-" and prev_kind() in ("sym", "kw", None))) and not (i > 0 and (q[i - 1].isalnum() or q[i - 1] == "_")):
            # a bare word starting with digits (unquoted string like 1a) is handled below
            e = m.end()
            if e < n and (q[e].isalnum() or q[e] == "_"):
                pass
            else:
                toks.append(("num", float(m.group()), i))
                i = e
                continue
        m = _WORD.match(q, i)
        if m:
            w = m.group()
            toks.append(("kw" if w in KEYWORDS else "word", w, i))
            i = m.end()
            continue
        for s in ("!=", "<=", ">=", "<>", "(", ")", "[", "]", ",", "=", "<", ">", "|", "&", "!"):
            if q.startswith(s, i):
                toks.append(("sym", s, i))
                i += len(s)
                break
        else:
            raise QParseError(f"unexpected character {c!r} at {i}")
    return toks


class Parser:
    def __init__(self, q, k):
        self.q, self.k = q, k
        self.t = tokenize(q, k)
        self.i = 0
        mode = k["tokens"]
        self.or_tok = ("sym", "|") if mode == "symbols" else ("kw", "OR")
        self.and_tok = ("sym", "&") if mode == "symbols" else (None if mode == "implicit_and" else ("kw", "AND"))
        self.not_tok = ("sym", "!") if mode == "symbols" else ("kw", "NOT")
        prec = k["precedence"]
        self.bp = {name: 3 - prec.index(name) for name in ("NOT", "AND", "OR")}

    def peek(self):
        return self.t[self.i][:2] if self.i < len(self.t) else (None, None)

    def next(self):
        tok = self.t[self.i] if self.i < len(self.t) else (None, None, len(self.q))
        self.i += 1
        return tok

    def fail(self, msg):
        pos = self.t[self.i][2] if self.i < len(self.t) else len(self.q)
        raise QParseError(f"{msg} at {pos} in {self.q!r}")

    def starts_atom(self):
        k, v = self.peek()
        if k in ("field", "word"):
            return True
        if (k, v) == self.not_tok or (k, v) == ("sym", "("):
            return True
        return k == "kw" and v in ("EXISTS", "NOTEXISTS", "KW", "KWN", "KWRE", "TS", "QE")

    def parse(self):
        f = self.expr(0)
        if self.i != len(self.t):
            self.fail("trailing tokens")
        return f

    def binop(self):
        tok = self.peek()
        if tok == self.or_tok:
            return "OR", True
        if self.and_tok is not None and tok == self.and_tok:
            return "AND", True
        if self.and_tok is None and self.starts_atom():
            return "AND", False
        return None, False

    def expr(self, min_bp):
        if self.peek() == self.not_tok:
            self.next()
            left = F.NOT(self.expr(self.bp["NOT"]))
        else:
            left = self.primary()
        while True:
            op, consume = self.binop()
            if op is None or self.bp[op] < min_bp:
                return left
            if consume:
                self.next()
            right = self.expr(self.bp[op] + 1)
            left = (op.lower(), (left, right))

    def field(self):
        k, v, _ = self.next()
        if k in ("field", "word"):
            return v
        self.i -= 1
        self.fail("field expected")

    def string(self):
        k, v, _ = self.next()
        if k == "str":
            return v
        if k == "word":  # unquoted string (quote-by-pattern configurations)
            return (v,)
        if k == "num" and self.k["str_quote"] == "pattern":
            self.i -= 1
            self.fail("number where a string is expected (ambiguous unquoted literal)")
        self.i -= 1
        self.fail("string expected")

    def number(self):
        k, v, _ = self.next()
        if k == "num":
            return v
        self.i -= 1
        self.fail("number expected")

    def regex(self):
        k, v, _ = self.next()
        if k != "re":
            self.i -= 1
            self.fail("regex expected")
        text, flags = v
        fl = set(flags)
        m = re.match(r"^\(\?([ims]+)\)", text)
        if self.k["re_flag_prefix"] and m:
            fl |= set(m.group(1))
            text = text[m.end():]
        names = {"i": "IGNORECASE", "m": "MULTILINE", "s": "DOTALL"}
        return text, tuple(sorted(names[x] for x in fl))

    def primary(self):
        k, v = self.peek()
        if (k, v) == ("sym", "("):
            self.next()
            f = self.expr(0)
            if self.peek() != ("sym", ")"):
                self.fail("')' expected")
            self.next()
            return f
        if k == "kw":
            if v in ("EXISTS", "NOTEXISTS"):
                self.next()
                a = F.a_exists(self.field())
                return a if v == "EXISTS" else F.NOT(a)
            if v == "QE":
                self.next()
                pk, pv, _ = self.next()
                if pk != "payload" or "|" not in pv:
                    self.fail("query expression payload expected")
                ftxt, ident = pv.rsplit("|", 1)
                ft = tokenize(ftxt, self.k)
                if len(ft) != 1 or ft[0][0] not in ("field", "word"):
                    self.fail(f"bad field in query expression {pv!r}")
                return F.a_query(ft[0][1], ident)
            if v == "KW":
                self.next()
                return F.a_str(None, False, self.string())
            if v == "KWN":
                self.next()
                return F.a_num(None, self.number())
            if v == "KWRE":
                self.next()
                t, fl = self.regex()
                return F.a_re(None, t, fl)
            if v == "TS":
                self.next()
                if self.next()[:2] != ("sym", "("):
                    self.fail("'(' expected")
                fld = self.field()
                if self.next()[:2] != ("sym", ","):
                    self.fail("',' expected")
                pk, pv, _ = self.next()
                if pk not in ("word", "kw"):
                    self.fail("timestamp part expected")
                if self.next()[:2] != ("sym", ")"):
                    self.fail("')' expected")
                ok, ov, _ = self.next()
                if (ok, ov) == ("sym", "="):
                    return F.a_ts(fld, pv, "EQ", self.number())
                if ok == "sym" and ov in CMP:
                    return F.a_ts(fld, pv, CMP[ov], self.number())
                self.fail("operator expected after TS()")
            self.fail(f"unexpected keyword {v}")
        if k not in ("field", "word"):
            self.fail("expression expected")
        fld = self.field()
        ok, ov, _ = self.next()
        if ok == "kw":
            if ov in STR_OPS:
                cased, kind, neg = STR_OPS[ov]
                parts = tuple(self.string())
                if kind != "eq" and not self.k["allow_special"] and any(p in (R.MULTI, R.SINGLE) for p in parts):
                    self.i -= 1
                    self.fail(f"wildcard inside the value of {ov}, which this target does not interpret (allow_special is off)")
                if kind == "sw":
                    parts = parts + (R.MULTI,)
                elif kind == "ew":
                    parts = (R.MULTI,) + parts
                elif kind == "ct":
                    parts = (R.MULTI,) + parts + (R.MULTI,)
                a = F.a_str(fld, cased, parts)
                return F.NOT(a) if neg else a
            if ov in ("RE", "NRE"):
                t, fl = self.regex()
                a = F.a_re(fld, t, fl)
                return F.NOT(a) if ov == "NRE" else a
            if ov in ("CIDR", "NCIDR"):
                pk, pv, _ = self.next()
                if pk != "payload":
                    self.fail("cidr payload expected")
                import ipaddress

                f = pv.split("|")
                try:
                    net = ipaddress.ip_network(f[0])
                    ok_ = len(f) == 4 and f[1] == str(net.network_address) and f[2] == str(net.prefixlen) and f[3] == str(net.netmask)
                except ValueError:
                    ok_ = False
                if not ok_:
                    self.fail(f"inconsistent cidr payload {pv!r}")
                a = F.a_cidr(fld, str(net))
                return F.NOT(a) if ov == "NCIDR" else a
            if ov in ("FEQ", "FSW", "FEW", "FCT"):
                other = self.field()
                return F.a_fieldref(fld, other, ov in ("FSW", "FCT"), ov in ("FEW", "FCT"))
            if ov == "ISNULL":
                return F.a_null(fld)
            if ov in ("IN", "ALLOF"):
                if self.next()[:2] != ("sym", "["):
                    self.fail("'[' expected")
                items = []
                while True:
                    pk, pv = self.peek()
                    if pk == "num":
                        self.next()
                        items.append(F.a_num(fld, pv))
                    else:
                        parts = self.string()
                        if not self.k["in_wild"] and any(p in (R.MULTI, R.SINGLE) for p in parts):
                            self.i -= 1
                            self.fail("wildcard inside a list value, which this target does not interpret (in_expressions_allow_wildcards is off)")
                        items.append(F.a_str(fld, False, parts))
                    pk, pv, _ = self.next()
                    if (pk, pv) == ("sym", "]"):
                        break
                    if (pk, pv) != ("sym", ","):
                        self.i -= 1
                        self.fail("',' or ']' expected")
                return F.OR(items) if ov == "IN" else F.AND(items)
            self.fail(f"unexpected operator {ov}")
        if ok == "sym" and ov in ("=", "!="):
            pk, pv = self.peek()
            if pk == "num":
                self.next()
                a = F.a_num(fld, pv)
            elif pk == "kw" and pv in ("TRUE", "FALSE"):
                self.next()
                a = F.a_bool(fld, pv == "TRUE")
            else:
                a = F.a_str(fld, False, self.string())
            return F.NOT(a) if ov == "!=" else a
        if ok == "sym" and ov in CMP:
            return F.a_cmp(fld, CMP[ov], self.number())
        self.i -= 1
        self.fail("operator expected after field")


def qparse(query, k):
    if not isinstance(query, str):
        raise QParseError(f"query is not a string: {type(query).__name__}")
    if k.get("state_expr"):
        m = re.match(r"^IDX<[^>]*> ", query)
        if not m:
            raise QParseError("state prefix missing")
        query = query[m.end():]
    return Parser(query, k).parse()
